package main

import (
	"fmt"
	"go/token"
	"go/types"
	"strings"

	"golang.org/x/tools/go/ssa"
)

func init() {
	props["C17"] = func(r *Report) {
		c17(r)
		r.Guard("C17.R6", "every lock taken is released on every exit: the logger's lock", func() { lockPairRule(r, "har") })
	}
	floors["C17"] = map[string]int{"C17.R1": 17, "C17.R2": 5, "C17.R3": 2, "C17.R4": 5, "C17.R5": 6, "C17.R6": 1}
}

func instrOf(v ssa.Value) ssa.Instruction {
	i, _ := v.(ssa.Instruction)
	return i
}

func isBuiltinCall(i ssa.Instruction, name string) (*ssa.Call, bool) {
	c, ok := i.(*ssa.Call)
	if !ok {
		return nil, false
	}
	b, ok := c.Call.Value.(*ssa.Builtin)
	return c, ok && b.Name() == name
}

func c17(r *Report) {
	w := r.W
	r.Decline("that the circular-list surgery returns every entry once and in order for every history (a heap-shape property; no shape analysis is available): only the guards, the write sets and the order of the link updates are decided")
	r.Decline("Export hands out live *Entry pointers whose Response is later written under the lock while the HTTP handler marshals them outside it (observation)")
	lg := w.Named("har", "Logger")
	en := w.Named("har", "Entry")
	rr := r.Use("har", "Logger.RecordRequest")
	rs := r.Use("har", "Logger.RecordResponse")
	ex := r.Use("har", "Logger.Export")
	er := r.Use("har", "Logger.ExportAndReset")
	rst := r.Use("har", "Logger.Reset")
	if lg == nil || en == nil || rr == nil || rs == nil || ex == nil || er == nil || rst == nil {
		return
	}
	fEntries, fTail := structField(lg, "entries"), structField(lg, "tail")
	fNext, fResp := structField(en, "next"), structField(en, "Response")
	if fEntries == nil || fTail == nil || fNext == nil || fResp == nil {
		r.Rule("C17.R1", "")
		r.Undecided("har.Logger / har.Entry fields", "UNRESOLVED")
		return
	}

	r.Guard("C17.R1", "the log's map, tail pointer, links and attached responses are only touched under the logger's lock", func() {
		st := map[*ssa.Function]map[ssa.Instruction]lockset{}
		seen := map[string]bool{}
		for _, fo := range []*types.Var{fEntries, fTail, fNext, fResp} {
			for _, a := range w.fieldAccesses(fo) {
				if freshBase(a.Addr) || a.Fn.Name() == "NewLogger" {
					continue
				}
				if fo == fResp && !a.Write {
					continue // reading an exported entry's response is the observation noted above
				}
				if st[a.Fn] == nil {
					st[a.Fn] = lockStates(a.Fn, w.closureEntryLocks(a.Fn))
				}
				ls := st[a.Fn][a.Instr]
				held := false
				for k := range ls {
					if strings.HasPrefix(k, "W:") && strings.HasSuffix(k, ".mu") {
						held = true
					}
				}
				kind := "read"
				if a.Write {
					kind = "write"
				}
				key := fmt.Sprintf("%s %s in %s under l.mu", fo.Name(), kind, fnName(a.Fn))
				if seen[key] && held {
					continue
				}
				seen[key] = true
				r.Sites++
				r.Decide("lockset", key, held, "lockset "+ls.String(), "log state accessed without the logger's lock: concurrent connections corrupt the list; lockset "+ls.String(), a.Instr.Pos())
			}
		}
	})

	r.Guard("C17.R2", "a duplicate request ID is rejected without disturbing the log", func() {
		harEntryCompleteRule(r)
		// recording fails, and the exchange is missing from the log, only where it does on the pinned
		// tree (a failure to snapshot or parse the body)
		for _, n := range []string{"NewRequest", "NewResponse", "postData", "Logger.RecordRequest", "Logger.RecordResponse"} {
			errorsReturnedRule(r, r.W.Fn("har", n), true)
		}
		partialStatusRule(r)
		g := G(rr)
		var lookup *ssa.Lookup
		for _, in := range instrs(rr) {
			if lk, ok := in.(*ssa.Lookup); ok && lk.CommaOk {
				if anyIn(w.backSlice(lk.X, flowOpt{}), func(v ssa.Value) bool { fa, y := v.(*ssa.FieldAddr); return y && fieldObj(fa) == fEntries }) {
					lookup = lk
				}
			}
		}
		if lookup == nil {
			r.Fail("path", "(*M/har.Logger).RecordRequest: duplicate test", "no lookup of the ID in entries before inserting", nil, rr.Pos())
			return
		}
		okv := extractOfTuple(lookup, 1)
		isMut := func(i ssa.Instruction) bool {
			switch x := i.(type) {
			case *ssa.MapUpdate:
				return true
			case *ssa.Store:
				if fa, ok := x.Addr.(*ssa.FieldAddr); ok && (fieldObj(fa) == fTail || fieldObj(fa) == fNext) {
					return true
				}
			}
			return false
		}
		// every mutation comes after the test, and the exists edge mutates nothing and returns an error
		before := g.PathTo([]ssa.Instruction{g.Entry()}, true, func(i ssa.Instruction) bool { return i == ssa.Instruction(lookup) }, isMut)
		r.Decide("path", "(*M/har.Logger).RecordRequest: nothing is modified before the duplicate test", before == nil, "the lookup precedes every mutation", "the log is modified before the duplicate test", lookup.Pos())
		ok := false
		if okv != nil {
			for _, e := range branchesOn(okv) {
				noMut := g.PathTo(blockStart(e.True), true, nil, isMut) == nil
				errs, _, _ := returnValuesFrom(e.True, 0)
				isErr := len(errs) > 0
				for _, v := range errs {
					if isNilConst(v) {
						isErr = false
					}
				}
				ok = noMut && isErr
				// every mutation lies behind the not-a-duplicate edge
				for _, in := range instrs(rr) {
					if !isMut(in) {
						continue
					}
					dom := false
					for k, s := range e.If.Block().Succs {
						if s == e.False && edgeDominates(e.If.Block(), k, in.Block()) {
							dom = true
						}
					}
					if !dom {
						ok = false
					}
				}
			}
		}
		r.Decide("path", "(*M/har.Logger).RecordRequest: the duplicate edge returns an error and modifies nothing", ok, "exists edge: error return, no map/list update", "a duplicate ID is not rejected, or the rejection has already changed the log", lookup.Pos())
		// test and insertion form one critical section: the lock is not released in between
		okCS := true
		for _, in := range instrs(rr) {
			c, isC := in.(*ssa.Call)
			if !isC {
				continue
			}
			if n := calleeName(c); n != "(*sync.Mutex).Unlock" && n != "(*sync.RWMutex).Unlock" && n != "(*sync.RWMutex).RUnlock" {
				continue
			}
			afterTest := g.PathTo([]ssa.Instruction{lookup}, false, nil, func(i ssa.Instruction) bool { return i == ssa.Instruction(c) }) != nil
			beforeIns := g.PathTo([]ssa.Instruction{c}, false, nil, isMut) != nil
			if afterTest && beforeIns {
				okCS = false
			}
		}
		r.Decide("lockset", "(*M/har.Logger).RecordRequest: the duplicate test and the insertion share one critical section", okCS, "no unlock between the lookup and the insertion", "the lock is released between the duplicate test and the insertion: two concurrent requests with one ID are both accepted and one entry is silently lost", lookup.Pos())
		// the key looked up is the key inserted, and the value inserted is the entry linked
		var mu *ssa.MapUpdate
		for _, in := range instrs(rr) {
			if m, ok := in.(*ssa.MapUpdate); ok {
				mu = m
			}
		}
		okKey := mu != nil && mu.Key == lookup.Index && isParamVal(mu.Key, rr.Params[1])
		r.Decide("flow", "(*M/har.Logger).RecordRequest: the ID tested is the ID inserted", okKey, "same value", "the duplicate test and the insertion use different keys", lookup.Pos())
		// link order: entry.next = tail.next; tail.next = entry; tail = entry
		var sNextOfEntry, sTailNext, sTail ssa.Instruction
		var entry ssa.Value
		if mu != nil {
			entry = mu.Value
		}
		for _, in := range instrs(rr) {
			st, ok := in.(*ssa.Store)
			if !ok {
				continue
			}
			fa, ok := st.Addr.(*ssa.FieldAddr)
			if !ok {
				continue
			}
			switch {
			case fieldObj(fa) == fNext && fa.X == entry:
				sNextOfEntry = st
			case fieldObj(fa) == fNext && st.Val == entry:
				sTailNext = st
			case fieldObj(fa) == fTail && st.Val == entry && sTailNext != nil:
				sTail = st
			}
		}
		okOrder := sNextOfEntry != nil && sTailNext != nil && sTail != nil && g.Before(sNextOfEntry, sTailNext) && g.Before(sTailNext, sTail)
		if okOrder {
			// entry.next takes over the old tail's successor
			st := sNextOfEntry.(*ssa.Store)
			okOrder = anyIn(w.backSlice(st.Val, flowOpt{}), func(v ssa.Value) bool { fa, y := v.(*ssa.FieldAddr); return y && fieldObj(fa) == fNext })
		}
		r.Decide("path", "(*M/har.Logger).RecordRequest: the new entry is linked in after the tail in the order next, tail.next, tail", okOrder, "entry.next = tail.next; tail.next = entry; tail = entry", "the ring is updated in an order (or with values) that loses the successor of the old tail: entries disappear from exports", rr.Pos())
	})

	r.Guard("C17.R3", "a response is attached only to a known, not yet reset request", func() {
		// every message not marked skip-logging reaches the log: from the not-skipping edge of
		// the modifier, no return is reachable without the Record call (a filter on status,
		// method or size leaves an entry pending for ever, or out of the log)
		if LT := w.Named("har", "Logger"); LT != nil {
			for _, pr := range [][2]string{{"ModifyRequest", "(*M/har.Logger).RecordRequest"}, {"ModifyResponse", "(*M/har.Logger).RecordResponse"}} {
				f := w.method(LT, pr[0])
				if f == nil || f.Blocks == nil {
					r.Undecided("(*M/har.Logger)."+pr[0], "UNRESOLVED")
					continue
				}
				r.Touch(f)
				g := G(f)
				sk := plainCalls(f, "(*M.Context).SkippingLogging")
				okRec := len(sk) == 1
				if okRec {
					for _, e := range branchesOn(sk[0]) {
						isRec := func(i ssa.Instruction) bool { _, y := isCall(i, pr[1]); return y }
						if g.PathTo(blockStart(e.False), true, isRec, isReturn) != nil {
							okRec = false
						}
					}
				}
				r.Decide("path", "(*M/har.Logger)."+pr[0]+": every message not marked skip-logging is recorded", okRec, short(pr[1])+" lies on every path from the not-skipping edge to the return", "some messages bypass the log (an early return besides the skip-logging test): their request stays pending for ever or is missing from every export", f.Pos())
			}
		}
		ok := false
		var pos token.Pos = rs.Pos()
		for _, in := range instrs(rs) {
			st, isSt := in.(*ssa.Store)
			if !isSt {
				continue
			}
			fa, isFa := st.Addr.(*ssa.FieldAddr)
			if !isFa || fieldObj(fa) != fResp {
				continue
			}
			pos = st.Pos()
			// the entry comes from the lookup of this id, on its ok edge
			for v := range w.backSlice(fa.X, flowOpt{}) {
				lk, isLk := v.(*ssa.Lookup)
				if !isLk || !lk.CommaOk || lk.Index != ssa.Value(rs.Params[1]) {
					continue
				}
				if okv := extractOfTuple(lk, 1); okv != nil {
					for _, e := range branchesOn(okv) {
						if edgeDominatesTrue(e, st.Block()) {
							ok = true
						}
					}
				}
			}
		}
		r.Decide("path", "(*M/har.Logger).RecordResponse: Response is stored on the entry found for this ID only", ok, "store on the found edge of entries[id]", "a response for an unknown or already-reset ID is attached somewhere (or crashes)", pos)
		// and it creates no entry
		n := 0
		for _, in := range instrs(rs) {
			if _, y := in.(*ssa.MapUpdate); y {
				n++
			}
		}
		r.Decide("callgraph", "(*M/har.Logger).RecordResponse: never inserts into the log", n == 0, "no map update", "an orphaned response creates an entry", rs.Pos())
	})

	r.Guard("C17.R4", "map and ring are emptied together", func() {
		// Reset: both
		wr := fieldsWritten(rst)
		_, e1 := wr[fEntries]
		tl, e2 := wr[fTail]
		okR := e1 && e2
		for _, s := range tl {
			if !isNilConst(s.Val) {
				okR = false
			}
		}
		r.Decide("sibling", "(*M/har.Logger).Reset: replaces the map and clears the tail", okR, "entries = make(...), tail = nil", "Reset leaves the ring pointing at entries that are no longer in the map (they reappear in later exports)", rst.Pos())
		// ExportAndReset: tail = nil exactly on len(entries) == 0
		okE := false
		for _, s := range fieldsWritten(er)[fTail] {
			if !isNilConst(s.Val) {
				continue
			}
			for _, ce := range ctrlEdges(s.Block()) {
				b, isB := ce.If.Cond.(*ssa.BinOp)
				if !isB {
					continue
				}
				n, isC := constInt(b.Y)
				lenCall, isLen := isBuiltinCall(instrOf(b.X), "len")
				if isC && n == 0 && isLen && ((b.Op == token.EQL && ce.Taken) || (b.Op == token.NEQ && !ce.Taken)) {
					if anyIn(w.backSlice(lenCall.Call.Args[0], flowOpt{}), func(v ssa.Value) bool { fa, y := v.(*ssa.FieldAddr); return y && fieldObj(fa) == fEntries }) {
						okE = true
					}
				}
			}
		}
		r.Decide("path", "(*M/har.Logger).ExportAndReset: the tail is cleared exactly when no entry is left", okE, "tail = nil on len(entries) == 0", "the ring is cleared while pending entries remain (they are lost), or kept when empty", er.Pos())
		// on the other edge the ring is closed: tail = prev; tail.next = first
		okC := false
		var sT, sN ssa.Instruction
		for _, in := range instrs(er) {
			st, isSt := in.(*ssa.Store)
			if !isSt {
				continue
			}
			fa, isFa := st.Addr.(*ssa.FieldAddr)
			if !isFa {
				continue
			}
			if fieldObj(fa) == fTail && !isNilConst(st.Val) {
				sT = st
			}
			if fieldObj(fa) == fNext && sT != nil && st.Block() == sT.Block() {
				sN = st
			}
		}
		okC = sT != nil && sN != nil && G(er).Before(sT, sN)
		r.Decide("path", "(*M/har.Logger).ExportAndReset: the kept entries are closed into a ring again", okC, "tail = prev; tail.next = first", "after an export-and-reset with pending entries the list is not circular: later exports loop or drop entries", er.Pos())
		// ... onto the first entry that is still pending: every entry the closing
		// store can name was selected on the Response == nil edge of the walk
		if sN != nil {
			pendingEdge := func(blk *ssa.BasicBlock) bool {
				for _, ce := range ctrlEdges(blk) {
					b, isB := ce.If.Cond.(*ssa.BinOp)
					if !isB {
						continue
					}
					other := b.X
					if isNilConst(b.X) {
						other = b.Y
					} else if !isNilConst(b.Y) {
						continue
					}
					ld, isLd := other.(*ssa.UnOp)
					if !isLd {
						continue
					}
					rfa, isR := ld.X.(*ssa.FieldAddr)
					if !isR || fieldObj(rfa) != fResp {
						continue
					}
					if (b.Op == token.NEQ && !ce.Taken) || (b.Op == token.EQL && ce.Taken) {
						return true
					}
				}
				return false
			}
			bad := ""
			seenPhi := map[*ssa.Phi]bool{}
			var visit func(v ssa.Value, arrival *ssa.BasicBlock)
			visit = func(v ssa.Value, arrival *ssa.BasicBlock) {
				if phi, isPhi := v.(*ssa.Phi); isPhi {
					if seenPhi[phi] {
						return
					}
					seenPhi[phi] = true
					for k, e := range phi.Edges {
						visit(e, phi.Block().Preds[k])
					}
					return
				}
				if isNilConst(v) {
					return
				}
				if arrival == nil {
					if in, isIn := v.(ssa.Instruction); isIn {
						arrival = in.Block()
					}
				}
				if arrival == nil || !pendingEdge(arrival) {
					bad = describeVal(v)
				}
			}
			visit(sN.(*ssa.Store).Val, nil)
			r.Decide("flow", "(*M/har.Logger).ExportAndReset: the ring is closed onto the first pending entry", bad == "", "the entry stored in tail.next is chosen on the Response == nil edge of the walk", "the ring is closed onto "+bad+", which need not be a pending entry (e.g. the old head): an exported entry stays linked and is returned again by later exports", sN.Pos())
		}
		// a pending entry is linked behind the previous pending one (skipping the exported ones in between)
		okK := false
		for _, in := range instrs(er) {
			st, isSt := in.(*ssa.Store)
			if !isSt || !inLoop(st.Block()) {
				continue
			}
			fa, isFa := st.Addr.(*ssa.FieldAddr)
			if !isFa || fieldObj(fa) != fNext {
				continue
			}
			// on the Response == nil edge, storing the entry under examination
			for _, ce := range ctrlEdges(st.Block()) {
				b, isB := ce.If.Cond.(*ssa.BinOp)
				if !isB {
					continue
				}
				other := b.X
				if isNilConst(b.X) {
					other = b.Y
				} else if !isNilConst(b.Y) {
					continue
				}
				ld, isLd := other.(*ssa.UnOp)
				if !isLd {
					continue
				}
				rfa, isR := ld.X.(*ssa.FieldAddr)
				if !isR || fieldObj(rfa) != fResp {
					continue
				}
				pending := (b.Op == token.NEQ && !ce.Taken) || (b.Op == token.EQL && ce.Taken)
				if pending && st.Val == rfa.X {
					okK = true
				}
			}
		}
		r.Decide("path", "(*M/har.Logger).ExportAndReset: a pending entry is re-linked behind the previous pending entry", okK, "prev.next = curr on the Response == nil edge", "exported entries between two pending ones stay linked: they reappear in later exports and are returned twice", er.Pos())
		// an entry leaves the map exactly when it is exported
		okD := false
		for _, in := range instrs(er) {
			if d, isD := isBuiltinCall(in, "delete"); isD {
				for _, in2 := range instrs(er) {
					if a, isA := isBuiltinCall(in2, "append"); isA && a.Block() == d.Block() {
						okD = true
					}
				}
				onCompleted := false
				for _, ce := range ctrlEdges(d.Block()) {
					b, isB := ce.If.Cond.(*ssa.BinOp)
					if !isB || !(isNilConst(b.Y) || isNilConst(b.X)) {
						continue
					}
					other := b.X
					if isNilConst(b.X) {
						other = b.Y
					}
					ld, isLd := other.(*ssa.UnOp)
					if !isLd {
						continue
					}
					if fa, isFa := ld.X.(*ssa.FieldAddr); isFa && fieldObj(fa) == fResp && ((b.Op == token.NEQ && ce.Taken) || (b.Op == token.EQL && !ce.Taken)) {
						onCompleted = true
					}
				}
				if !onCompleted {
					okD = false
				}
			}
		}
		r.Decide("path", "(*M/har.Logger).ExportAndReset: exactly the completed entries are exported and removed", okD, "append and delete on the Response != nil edge", "entries are removed without being exported (lost) or exported without being removed (duplicated later), or pending ones are exported", er.Pos())
	})

	r.Guard("C17.R4", "the reset endpoint exports before it clears exactly when asked to, and refuses a request it cannot read", func() {
		pb := r.W.Fn("har", "parseBoolQueryParam")
		rh := r.W.Fn("har", "resetHandler.ServeHTTP")
		if pb == nil || pb.Blocks == nil || rh == nil || rh.Blocks == nil {
			r.Undecided("M/har.parseBoolQueryParam / resetHandler.ServeHTTP", "UNRESOLVED")
			return
		}
		r.Touch(pb)
		r.Touch(rh)
		// "not asked" is the absence of the parameter: the early (false, nil) is taken on a test of
		// the parameter's presence in the query (the map entry is nil / has no values), never on its
		// value being empty - `?return=` is a request the handler cannot read, and answering it by
		// clearing the log without an export loses the completed entries
		pbCalls := plainCalls(pb, "strconv.ParseBool")
		okAbs := len(pbCalls) == 1
		for _, ret := range returns(pb) {
			afterParse := false
			for _, c := range pbCalls {
				if G(pb).Before(c, ret) {
					afterParse = true
				}
			}
			if afterParse {
				continue
			}
			presence := false
			for _, ce := range ctrlEdges(ret.Block()) {
				b, isB := ce.If.Cond.(*ssa.BinOp)
				if !isB {
					continue
				}
				for _, side := range []ssa.Value{b.X, b.Y} {
					if _, isLk := side.(*ssa.Lookup); isLk {
						presence = true
					}
					if ex, isEx := side.(*ssa.Extract); isEx {
						if _, isLk := ex.Tuple.(*ssa.Lookup); isLk {
							presence = true
						}
					}
					if c, isC := side.(*ssa.Call); isC {
						if bi, isBi := c.Call.Value.(*ssa.Builtin); isBi && bi.Name() == "len" {
							if _, isLk := c.Call.Args[0].(*ssa.Lookup); isLk {
								presence = true
							}
						}
						if calleeName(c) == "(net/url.Values).Has" {
							presence = true
						}
					}
				}
				if ex, isEx := ce.If.Cond.(*ssa.Extract); isEx {
					if _, isLk := ex.Tuple.(*ssa.Lookup); isLk {
						presence = true
					}
				}
				if isCallValue(ce.If.Cond, "(net/url.Values).Has") {
					presence = true
				}
			}
			if !presence {
				okAbs = false
			}
		}
		r.Decide("path", "M/har.parseBoolQueryParam: only an absent parameter means false", okAbs, "the early return is taken on the parameter's absence from the query", "a parameter that is present but cannot be read as a boolean (blank) is taken for false instead of being refused: the reset endpoint clears the log without handing out the completed entries", pb.Pos())
		errorsReturnedRule(r, pb, false)
		// the handler refuses (400) when the parameter cannot be read: no Reset / ExportAndReset on
		// the error edge
		for _, c := range plainCalls(rh, "M/har.parseBoolQueryParam") {
			for _, e := range errTests(c) {
				g := G(rh)
				p := g.PathTo(blockStart(e.NonNil), true, nil, func(i ssa.Instruction) bool {
					_, y := isCall(i, "(*M/har.Logger).Reset", "(*M/har.Logger).ExportAndReset")
					return y
				})
				r.Decide("path", "(*M/har.resetHandler).ServeHTTP: an unreadable parameter changes nothing", p == nil, "no reset is reachable from the error edge", "the log is cleared although the request was refused", c.Pos())
			}
		}
	})

	r.Guard("C17.R5", "only the recording and resetting functions change the log; exporting alone changes nothing", func() {
		// the index is created with the logger and replaced by Reset only: an export that
		// rebuilds it can leave an entry of the ring without its slot
		fieldWritersRule(r, "har", "Logger", "entries", map[string]bool{"M/har.NewLogger": true, "(*M/har.Logger).Reset": true}, "the entry index is rebuilt outside NewLogger / Reset: an entry that stays in the ring can lose its slot in the index, so its response is ignored, it is never exported, and its ID is accepted a second time")
		// entry IDs come from the proxy's ID source, which must not repeat: it keeps no state
		// between calls (a pool that wraps hands out the same IDs again, and the log rejects
		// the later exchange as a duplicate)
		statelessRule(r, r.W.Fn("", "newID"), map[string]bool{}, "IDs repeat once the kept state wraps: the log rejects the later exchange as a duplicate ID and attaches its response to the earlier entry")
		// ... and an ID is only handed out when the random source delivered it (an ID made of the
		// zero bytes of a failed read is the same for every exchange)
		errorsReturnedRule(r, r.W.Fn("", "newID"), false)
		contextIDFreshRule(r)
		freshContextUnmarkedRule(r)
		// an export can be encoded: the JSON form of a body comes from encoding/json (hand-written
		// JSON that is invalid for some content makes the whole export fail after ExportAndReset has
		// already emptied the log)
		marshalThroughJSONRule(r)
		// what an export returns is a function of the ring and the map alone: no branch of
		// Export / ExportAndReset looks at other logger state (a counter or a generation
		// number kept beside the list can disagree with it)
		for _, fn := range []string{"Logger.Export", "Logger.ExportAndReset"} {
			f := r.W.Fn("har", fn)
			if f == nil || len(f.Params) == 0 {
				continue
			}
			bad := ""
			var pos token.Pos
			for _, in := range instrs(f) {
				iff, ok := in.(*ssa.If)
				if !ok {
					continue
				}
				for v := range w.backSlice(iff.Cond, flowOpt{BinOps: true}) {
					if fa, isFa := v.(*ssa.FieldAddr); isFa && isParamVal(fa.X, f.Params[0]) {
						if fo := fieldObj(fa); fo != fEntries && fo != fTail && fo.Name() != "mu" && opWritten(w, fo) {
							bad = fo.Name()
							pos = iff.Cond.Pos()
						}
					}
				}
			}
			r.Decide("flow", fnName(f)+": decisions depend on the entry map and the ring only", bad == "", "no condition reads another field that the logger's own methods update (fields fixed by options at construction are configuration, not state)", "a branch depends on Logger."+bad+", state kept beside the list: when it disagrees with the list (a repeated response, an update it does not count) pending entries are exported and dropped, or completed ones withheld", pos)
		}
		// the export endpoint serves the log as it is now: Export() is called for every
		// GET, under no condition but the request method
		if eh := r.W.Fn("har", "exportHandler.ServeHTTP"); eh != nil {
			r.Touch(eh)
			exps := calls(eh, "(*M/har.Logger).Export")
			if len(exps) == 0 {
				r.Fail("path", "(*M/har.exportHandler).ServeHTTP: exports the current log", "the handler no longer calls Logger.Export", nil, eh.Pos())
			}
			for _, c := range exps {
				bad := ""
				for _, ce := range ctrlEdges(c.Block()) {
					if !anyIn(w.backSlice(ce.If.Cond, flowOpt{BinOps: true}), func(x ssa.Value) bool {
						fa, y := x.(*ssa.FieldAddr)
						return y && fieldObj(fa).Name() == "Method"
					}) {
						bad = w.Pos(ce.If.Cond.Pos())
					}
				}
				r.Decide("path", "(*M/har.exportHandler).ServeHTTP: exports the current log", bad == "", "Export() depends on the request method only", "the export is skipped under the condition at "+bad+" (a cached answer is served instead): a response recorded since the cached export is missing from what the client gets", c.Pos())
			}
		}

		// the list an export hands out belongs to the caller: it is made in that call
		// and shares no storage with the logger (a reused backing array is rewritten
		// by the next export while the caller still reads the previous answer)
		for _, fn := range []string{"Logger.Export", "Logger.ExportAndReset"} {
			f := r.Use("har", fn)
			if f == nil {
				continue
			}
			var lists []ssa.Value
			for _, c := range plainCalls(f, "(*M/har.Logger).makeHAR") {
				lists = append(lists, c.Call.Args[1])
			}
			for _, in := range instrs(f) {
				if st, ok := in.(*ssa.Store); ok {
					if fa, isFa := st.Addr.(*ssa.FieldAddr); isFa && fieldObj(fa).Name() == "Entries" {
						lists = append(lists, st.Val)
					}
				}
			}
			if len(lists) == 0 {
				r.Undecided(fnName(f)+": exported entry list", "UNRESOLVED: neither makeHAR(es) nor a store to Log.Entries found")
				continue
			}
			for _, v := range lists {
				sl := w.backSlice(v, flowOpt{})
				fresh := anyIn(sl, func(x ssa.Value) bool {
					mk, ok := x.(*ssa.MakeSlice)
					return ok && mk.Parent() == f
				})
				shared := anyIn(sl, func(x ssa.Value) bool {
					fa, ok := x.(*ssa.FieldAddr)
					if !ok || len(f.Params) == 0 || fa.X != ssa.Value(f.Params[0]) {
						return false
					}
					_, isSlice := fieldObj(fa).Type().Underlying().(*types.Slice)
					return isSlice
				})
				r.Decide("flow", fnName(f)+": the exported entry list is made in this call", fresh && !shared, "built by make() in the exporting call, not from a slice kept in the logger", "the exported list is backed by storage the logger keeps: a later export or reset rewrites the entries an earlier caller is still holding", v.Pos())
			}
		}

		harExportResetRule(r)

		allowed := map[*types.Var]map[string]bool{
			fEntries: {"(*M/har.Logger).RecordRequest": true, "(*M/har.Logger).ExportAndReset": true, "(*M/har.Logger).Reset": true, "M/har.NewLogger": true},
			fTail:    {"(*M/har.Logger).RecordRequest": true, "(*M/har.Logger).ExportAndReset": true, "(*M/har.Logger).Reset": true, "M/har.NewLogger": true},
			fNext:    {"(*M/har.Logger).RecordRequest": true, "(*M/har.Logger).ExportAndReset": true},
			fResp:    {"(*M/har.Logger).RecordResponse": true},
		}
		for _, fo := range []*types.Var{fEntries, fTail, fNext, fResp} {
			writers := map[string]bool{}
			for _, f := range w.Funcs("har") {
				for _, in := range instrs(f) {
					switch x := in.(type) {
					case *ssa.Store:
						if fa, ok := x.Addr.(*ssa.FieldAddr); ok && fieldObj(fa) == fo {
							writers[fnName(f)] = true
						}
					case *ssa.MapUpdate:
						if fo == fEntries && anyIn(w.backSlice(x.Map, flowOpt{}), func(v ssa.Value) bool { fa, y := v.(*ssa.FieldAddr); return y && fieldObj(fa) == fEntries }) {
							writers[fnName(f)] = true
						}
					case *ssa.Call:
						if d, isD := isBuiltinCall(x, "delete"); isD && fo == fEntries && anyIn(w.backSlice(d.Call.Args[0], flowOpt{}), func(v ssa.Value) bool { fa, y := v.(*ssa.FieldAddr); return y && fieldObj(fa) == fEntries }) {
							writers[fnName(f)] = true
						}
					}
				}
			}
			var extra []string
			for wr := range writers {
				if !allowed[fo][wr] {
					extra = append(extra, wr)
				}
			}
			r.Sites++
			r.Decide("callgraph", "writers of "+fo.Name(), len(extra) == 0, fmt.Sprint(keys(writers)), fmt.Sprintf("%v modify %s: exports or other callers change the log", extra, fo.Name()), fo.Pos())
		}
		// Export walks from tail.next until it is back at the tail
		okW := false
		for _, in := range instrs(ex) {
			b, isB := in.(*ssa.BinOp)
			if !isB || b.Op != token.EQL {
				continue
			}
			isTailLoad := func(v ssa.Value) bool {
				ld, y := v.(*ssa.UnOp)
				if !y {
					return false
				}
				fa, y := ld.X.(*ssa.FieldAddr)
				return y && fieldObj(fa) == fTail
			}
			if isTailLoad(b.X) != isTailLoad(b.Y) && inLoop(b.Block()) {
				okW = true
			}
		}
		r.Decide("path", "(*M/har.Logger).Export: the walk ends when it is back at the tail", okW, "curr == l.tail terminates the loop", "the export loop has no termination test against the tail", ex.Pos())
		// Export appends after advancing (starts at tail.next, the oldest entry)
		okA := false
		for _, in := range instrs(ex) {
			if a, isA := isBuiltinCall(in, "append"); isA && len(a.Call.Args) == 2 {
				if anyIn(w.backSlice(a.Call.Args[1], flowOpt{}), func(v ssa.Value) bool { fa, y := v.(*ssa.FieldAddr); return y && fieldObj(fa) == fNext }) {
					okA = true
				}
			}
		}
		r.Decide("flow", "(*M/har.Logger).Export: entries are listed starting from the tail's successor", okA, "appends curr.next", "the export does not start at the oldest entry", ex.Pos())
	})
}

// opWritten: some method of the field's owner stores to the field (outside a
// freshly allocated value). Fields written only by option closures or the
// constructor are configuration: they cannot drift from the list.
func opWritten(w *World, fo *types.Var) bool {
	for _, st := range w.fieldStores(fo) {
		f := st.Parent()
		if f == nil || f.Signature.Recv() == nil {
			continue
		}
		if fa, ok := st.Addr.(*ssa.FieldAddr); ok && freshBase(fa) {
			continue
		}
		return true
	}
	return false
}

// harExportResetRule: the reset endpoint hands out the completed entries through
// ExportAndReset, never through Export followed by Reset. Shared by C17.R5 and
// C16.R7 (the response of an exchange in flight during the call must still
// reach a later export).
func harExportResetRule(r *Report) {
	w := r.W
	// "export-and-reset returns exactly the completed entries ... and keeps pending
	// ones": callers get that from ExportAndReset, which does it in one critical
	// section. An Export followed by a Reset is a different operation: it also
	// returns and drops the entries still waiting for their response.
	nER := 0
	for _, f := range w.Funcs("har") {
		g := G(f)
		for _, c := range calls(f, "(*M/har.Logger).ExportAndReset") {
			_ = c
			nER++
		}
		for _, c := range calls(f, "(*M/har.Logger).Export") {
			p := g.PathTo([]ssa.Instruction{c}, false, nil, func(i ssa.Instruction) bool { _, y := isCall(i, "(*M/har.Logger).Reset"); return y })
			r.Decide("path", fnName(f)+": no Reset after an Export", p == nil, "Export is not followed by Reset", "Export() followed by Reset() stands in for ExportAndReset(): pending entries are returned and dropped, their responses are then ignored, and entries recorded between the two calls are lost", c.Pos())
		}
	}
	r.Decide("callgraph", "the reset endpoint exports through ExportAndReset", nER >= 1, fmt.Sprintf("%d caller(s) of ExportAndReset in package har", nER), "nothing in package har calls ExportAndReset any more: the reset-and-return endpoint cannot keep pending entries", token.NoPos)

}

// harEntryCompleteRule: an entry becomes visible to exports (it is put into
// the index and the ring) only with its request already recorded: the store to
// Entry.Request precedes the publication on every path. Shared by C17.R2 and
// C16.R7.
func harEntryCompleteRule(r *Report) {
	w := r.W
	rr := w.Fn("har", "Logger.RecordRequest")
	if rr == nil || rr.Blocks == nil {
		r.Undecided("M/har.Logger.RecordRequest", "UNRESOLVED")
		return
	}
	r.Touch(rr)
	g := G(rr)
	var pubs []ssa.Instruction
	for _, in := range instrs(rr) {
		if mu, isMu := in.(*ssa.MapUpdate); isMu && strings.Contains(mu.Map.Type().String(), "Entry") {
			pubs = append(pubs, in)
		}
	}
	isReqStore := func(i ssa.Instruction) bool {
		st, ok := i.(*ssa.Store)
		if !ok {
			return false
		}
		fa, isFa := st.Addr.(*ssa.FieldAddr)
		return isFa && fieldObj(fa).Name() == "Request" && namedOf(fa.X.Type()) == "Entry" && !isNilConst(st.Val)
	}
	ok := len(pubs) >= 1
	for _, p := range pubs {
		if path := g.PathTo([]ssa.Instruction{g.Entry()}, true, isReqStore, func(i ssa.Instruction) bool { return i == p }); path != nil {
			ok = false
		}
	}
	r.Decide("path", "(*M/har.Logger).RecordRequest: an entry is published with its request recorded", ok, "the store to Entry.Request precedes the insertion into the index on every path", "the entry is put into the log before its request has been recorded (and stays there when recording fails): an export that runs in between, or after a failure, lists an exchange without a request", rr.Pos())
}

// partialStatusRule: a response that has no complete body of its own - 204 No
// Content and 206 Partial Content - is never run through a content decoder:
// SnapshotResponse clears the recorded content coding for exactly these two.
// A decoder set up over nothing (or over a fragment) fails, the response is
// not attached to its entry, and the entry stays pending for ever. Shared by
// C17.R2 and C16.R2.
func partialStatusRule(r *Report) {
	w := r.W
	sr := w.Fn("messageview", "MessageView.SnapshotResponse")
	if sr == nil || sr.Blocks == nil {
		r.Undecided("M/messageview.MessageView.SnapshotResponse", "UNRESOLVED")
		return
	}
	r.Touch(sr)
	isStatus := func(v ssa.Value) bool {
		ld, ok := v.(*ssa.UnOp)
		if !ok || ld.Op != token.MUL {
			return false
		}
		fa, isFa := ld.X.(*ssa.FieldAddr)
		return isFa && fieldObj(fa).Name() == "StatusCode"
	}
	var first *ssa.BinOp
	for _, in := range instrs(sr) {
		if b, isB := in.(*ssa.BinOp); isB && first == nil && (isStatus(b.X) || isStatus(b.Y)) {
			first = b
		}
	}
	if first == nil {
		r.Fail("table", "(*M/messageview.MessageView).SnapshotResponse: 204 and 206 are not decoded", "no test of the status code: a bodiless or partial response is handed to the content decoder", nil, sr.Pos())
		return
	}
	ok := true
	detail := ""
	for _, code := range []int64{200, 204, 206, 304} {
		out, okD := decide(first.Block(), func(v ssa.Value) (bool, bool) {
			ev := &miniEval{leaf: func(x ssa.Value) (int64, bool) {
				if isStatus(x) {
					return code, true
				}
				return 0, false
			}}
			return ev.Bool(v)
		})
		if !okD || out == nil {
			ok, detail = false, "the decision could not be evaluated"
			continue
		}
		cleared := false
		for _, in := range out.Instrs {
			if st, isSt := in.(*ssa.Store); isSt {
				if fa, isFa := st.Addr.(*ssa.FieldAddr); isFa && fieldObj(fa).Name() == "compress" {
					if k, isK := constString(st.Val); isK && k == "" {
						cleared = true
					}
				}
			}
		}
		if cleared != (code == 204 || code == 206) {
			ok = false
			detail = fmt.Sprintf("status %d: coding cleared = %v", code, cleared)
		}
	}
	r.Decide("table", "(*M/messageview.MessageView).SnapshotResponse: the content coding is dropped exactly for 204 and 206", ok, "evaluated for 200, 204, 206, 304", detail+": a response without a complete body is run through the decoder named in its Content-Encoding, the decoder fails on the empty or partial input, the response is not recorded and its entry stays pending", first.Pos())
}

// marshalThroughJSONRule: every MarshalJSON method of package har returns what
// json.Marshal produced. Shared by C17.R5 and C16.R4.
func marshalThroughJSONRule(r *Report) {
	w := r.W
	n := 0
	for _, f := range w.Funcs("har") {
		if f.Name() != "MarshalJSON" || f.Signature.Recv() == nil {
			continue
		}
		n++
		r.Touch(f)
		ok := true
		for _, ret := range returns(f) {
			for _, rv := range retVals(ret, 0) {
				for _, l := range resolveAll(rv) {
					if isNilConst(l) {
						continue
					}
					if !isExtractOfCall(l, "encoding/json.Marshal") && !isCallValue(l, "encoding/json.Marshal") {
						ok = false
					}
				}
			}
		}
		r.Decide("flow", fnName(f)+" returns the output of json.Marshal", ok, "every returned byte slice is a json.Marshal result", "the JSON is assembled by hand: a string that needs JSON escaping (a Content-Type with a non-UTF-8 or control byte) makes the entry, and with it the whole export, invalid", f.Pos())
	}
	r.Decide("flow", "package har has MarshalJSON methods", n >= 1, fmt.Sprintf("%d methods", n), "no MarshalJSON method found", token.NoPos)
}
