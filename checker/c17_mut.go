package main

func init() {
	mut("C17", "export-without-lock", "har/har.go", "func (l *Logger) Export() *HAR {\n\tl.mu.Lock()\n\tdefer l.mu.Unlock()\n", "func (l *Logger) Export() *HAR {\n", "C17.R1", "Export")
	mut("C17", "duplicate-overwrites", "har/har.go", "\tif _, exists := l.entries[id]; exists {\n\t\treturn fmt.Errorf(\"Duplicate request ID: %s\", id)\n\t}\n\tl.entries[id] = entry\n", "\t_, exists := l.entries[id]\n\tl.entries[id] = entry\n\tif exists {\n\t\treturn fmt.Errorf(\"Duplicate request ID: %s\", id)\n\t}\n", "C17.R2", "duplicate edge")
	mut("C17", "link-order-swapped", "har/har.go", "\tentry.next = l.tail.next\n\tl.tail.next = entry\n\tl.tail = entry\n", "\tl.tail.next = entry\n\tentry.next = l.tail.next\n\tl.tail = entry\n", "C17.R2", "linked in")
	mut("C17", "orphan-response-creates-entry", "har/har.go", "\tif e, ok := l.entries[id]; ok {\n\t\te.Response = hres\n\t\te.Time = time.Since(e.StartedDateTime).Nanoseconds() / 1000000\n\t}\n", "\te, ok := l.entries[id]\n\tif !ok {\n\t\te = &Entry{ID: id, StartedDateTime: time.Now().UTC()}\n\t\tl.entries[id] = e\n\t}\n\te.Response = hres\n\te.Time = time.Since(e.StartedDateTime).Nanoseconds() / 1000000\n", "C17.R3", "")
	mut("C17", "reset-keeps-ring", "har/har.go", "\tl.entries = make(map[string]*Entry)\n\tl.tail = nil\n}", "\tl.entries = make(map[string]*Entry)\n}", "C17.R4", "Reset")
	mut("C17", "export-and-reset-always-clears", "har/har.go", "\tif len(l.entries) == 0 {\n\t\tl.tail = nil\n\t} else {\n\t\tl.tail = prev\n\t\tl.tail.next = first\n\t}\n", "\tl.tail = nil\n\t_, _ = prev, first\n", "C17.R4", "")
	mut("C17", "exported-not-removed", "har/har.go", "\t\t\tes = append(es, curr)\n\t\t\tdelete(l.entries, curr.ID)\n", "\t\t\tes = append(es, curr)\n", "C17.R4", "completed entries")
	mut("C17", "export-marks-exported", "har/har.go", "\t\tcurr = curr.next\n\t\tes = append(es, curr)\n\t\tif curr == l.tail {\n", "\t\tcurr = curr.next\n\t\tes = append(es, curr)\n\t\tif curr.Response != nil {\n\t\t\tdelete(l.entries, curr.ID)\n\t\t}\n\t\tif curr == l.tail {\n", "C17.R5", "writers of entries")
	mut("C17", "ring-not-closed", "har/har.go", "\t\tl.tail = prev\n\t\tl.tail.next = first\n", "\t\tl.tail = prev\n", "C17.R4", "closed into a ring")
	mut("C17", "ring-closed-onto-last-walked", "har/har.go", "\t\tl.tail.next = first\n", "\t\tl.tail.next = curr\n", "C17.R4", "first pending")
	mut("C17", "blank-return-means-false", "har/har_handlers.go", "\tif params[name] == nil {\n\t\treturn false, nil\n\t}", "\tif params.Get(name) == \"\" {\n\t\treturn false, nil\n\t}", "C17.R4", "only an absent parameter means false")
	twin("C17", "absent-by-length", "har/har_handlers.go", "\tif params[name] == nil {\n\t\treturn false, nil\n\t}", "\tif len(params[name]) == 0 {\n\t\treturn false, nil\n\t}")
}
