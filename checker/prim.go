package main

// Analysis primitives (DESIGN.md section 3): resolved callees, instruction
// level reachability / must-pass-through, dominance, path enumeration with phi
// resolution, value flow, locksets.

import (
	"fmt"
	"go/constant"
	"go/token"
	"go/types"
	"os"
	"sort"
	"strings"

	"golang.org/x/tools/go/ssa"
)

// ---------------------------------------------------------------------------
// P1 resolved callees

// short abbreviates the module path in qualified names.
func short(s string) string { return strings.ReplaceAll(s, M, "M") }

// calleeObj returns the *types.Func a call resolves to: the static callee, or
// the interface method for an invoke. nil for calls of function values.
func calleeObj(c ssa.CallInstruction) *types.Func {
	cc := c.Common()
	if cc.IsInvoke() {
		return cc.Method
	}
	if f := cc.StaticCallee(); f != nil {
		if o, ok := f.Object().(*types.Func); ok {
			return o
		}
	}
	return nil
}

// calleeName is the abbreviated full name of the resolved callee, e.g.
// "(*net/http.Response).Write", "(M.RequestModifier).ModifyRequest",
// "M/proxyutil.Warning". Anonymous functions are named after ssa, e.g.
// "M.handleConnectRequest$1". Builtins are "builtin.close".
func calleeName(c ssa.CallInstruction) string {
	if o := calleeObj(c); o != nil {
		return short(o.FullName())
	}
	cc := c.Common()
	if f := cc.StaticCallee(); f != nil {
		return short(f.String())
	}
	if b, ok := cc.Value.(*ssa.Builtin); ok {
		return "builtin." + b.Name()
	}
	return ""
}

func isCall(i ssa.Instruction, names ...string) (ssa.CallInstruction, bool) {
	c, ok := i.(ssa.CallInstruction)
	if !ok {
		return nil, false
	}
	n := calleeName(c)
	for _, want := range names {
		if n == want {
			return c, true
		}
	}
	return nil, false
}

// instrs lists all instructions of f in block order.
func instrs(f *ssa.Function) []ssa.Instruction {
	var out []ssa.Instruction
	for _, b := range f.Blocks {
		out = append(out, b.Instrs...)
	}
	return out
}

// calls lists the call sites (call, go, defer) in f matching any name; all
// call sites when no name is given. Ordered by source position.
func calls(f *ssa.Function, names ...string) []ssa.CallInstruction {
	var out []ssa.CallInstruction
	for _, i := range instrs(f) {
		c, ok := i.(ssa.CallInstruction)
		if !ok {
			continue
		}
		if len(names) == 0 {
			out = append(out, c)
			continue
		}
		if _, ok := isCall(i, names...); ok {
			out = append(out, c)
		}
	}
	sort.SliceStable(out, func(a, b int) bool { return out[a].Pos() < out[b].Pos() })
	return out
}

// plainCalls is calls() restricted to ordinary call instructions (no go/defer).
func plainCalls(f *ssa.Function, names ...string) []*ssa.Call {
	var out []*ssa.Call
	for _, c := range calls(f, names...) {
		if cc, ok := c.(*ssa.Call); ok {
			out = append(out, cc)
		}
	}
	return out
}

func returns(f *ssa.Function) []*ssa.Return {
	var out []*ssa.Return
	for _, b := range f.Blocks {
		if len(b.Instrs) == 0 {
			continue
		}
		if r, ok := b.Instrs[len(b.Instrs)-1].(*ssa.Return); ok {
			out = append(out, r)
		}
	}
	return out
}

// ---------------------------------------------------------------------------
// instruction-level graph

type FG struct {
	F   *ssa.Function
	idx map[ssa.Instruction]int
}

var fgCache = map[*ssa.Function]*FG{}

func G(f *ssa.Function) *FG {
	if g := fgCache[f]; g != nil {
		return g
	}
	g := &FG{F: f, idx: map[ssa.Instruction]int{}}
	for _, b := range f.Blocks {
		for i, in := range b.Instrs {
			g.idx[in] = i
		}
	}
	fgCache[f] = g
	return g
}

func (g *FG) Succs(i ssa.Instruction) []ssa.Instruction {
	b := i.Block()
	k := g.idx[i]
	if k+1 < len(b.Instrs) {
		return []ssa.Instruction{b.Instrs[k+1]}
	}
	var out []ssa.Instruction
	for _, s := range b.Succs {
		// jump threading through a pure boolean merge: `x := a || b` followed by
		// `if x` makes a block that holds only phi(true, ..., b) and the branch on
		// it; arriving with a constant, control continues at the matching side
		if t := threadBoolPhi(b, s); t != nil {
			s = t
		}
		if len(s.Instrs) > 0 {
			out = append(out, s.Instrs[0])
		}
	}
	return out
}

// boolMerge recognises a block that consists of phis and an If on one of them
// (possibly negated); it returns that phi and whether the condition is negated.
func boolMerge(s *ssa.BasicBlock) (*ssa.Phi, bool) {
	if len(s.Instrs) < 2 {
		return nil, false
	}
	iff, ok := s.Instrs[len(s.Instrs)-1].(*ssa.If)
	if !ok || s.Succs[0] == s.Succs[1] {
		return nil, false
	}
	cond, neg := iff.Cond, false
	for {
		u, isU := cond.(*ssa.UnOp)
		if !isU || u.Op != token.NOT {
			break
		}
		cond, neg = u.X, !neg
	}
	phi, ok := cond.(*ssa.Phi)
	if !ok || phi.Block() != s {
		return nil, false
	}
	for _, in := range s.Instrs[:len(s.Instrs)-1] {
		switch x := in.(type) {
		case *ssa.Phi:
		case *ssa.UnOp:
			if x.Op != token.NOT {
				return nil, false
			}
		case *ssa.DebugRef:
		default:
			return nil, false
		}
	}
	// other phis of the block must not be used elsewhere than in the block
	return phi, neg
}

// threadBoolPhi: control goes from block `from` to the boolean merge `s`;
// when the value arriving from `from` is a constant the branch is decided.
func threadBoolPhi(from, s *ssa.BasicBlock) *ssa.BasicBlock {
	phi, neg := boolMerge(s)
	if phi == nil {
		return nil
	}
	// the block must define nothing else that later code reads
	for _, in := range s.Instrs {
		if p, ok := in.(*ssa.Phi); ok && p != phi && p.Referrers() != nil && len(*p.Referrers()) > 0 {
			return nil
		}
	}
	for k, p := range s.Preds {
		if p != from {
			continue
		}
		v, isC := constBool(phi.Edges[k])
		if !isC {
			return nil
		}
		if v != neg {
			return s.Succs[0]
		}
		return s.Succs[1]
	}
	return nil
}

// Entry is the first instruction of the function.
func (g *FG) Entry() ssa.Instruction { return g.F.Blocks[0].Instrs[0] }

// Before reports whether a is executed before b on every path from the entry
// to b (instruction-level strict dominance).
func (g *FG) Before(a, b ssa.Instruction) bool {
	if a.Block() == b.Block() {
		return g.idx[a] < g.idx[b]
	}
	return a.Block().Dominates(b.Block())
}

// Reach returns the instructions reachable from start (start itself only if
// incl) without passing through an instruction for which stop is true. Stop
// instructions themselves are not in the result.
func (g *FG) Reach(start []ssa.Instruction, incl bool, stop func(ssa.Instruction) bool) map[ssa.Instruction]bool {
	seen := map[ssa.Instruction]bool{}
	var work []ssa.Instruction
	push := func(i ssa.Instruction) {
		if seen[i] {
			return
		}
		if stop != nil && stop(i) {
			return
		}
		seen[i] = true
		work = append(work, i)
	}
	for _, s := range start {
		if incl {
			push(s)
		} else {
			for _, n := range g.Succs(s) {
				push(n)
			}
		}
	}
	for len(work) > 0 {
		i := work[len(work)-1]
		work = work[:len(work)-1]
		for _, n := range g.Succs(i) {
			push(n)
		}
	}
	return seen
}

// PathTo finds one instruction path from start (exclusive unless incl) to an
// instruction satisfying goal, avoiding stop instructions. nil if none.
func (g *FG) PathTo(start []ssa.Instruction, incl bool, stop, goal func(ssa.Instruction) bool) []ssa.Instruction {
	parent := map[ssa.Instruction]ssa.Instruction{}
	seen := map[ssa.Instruction]bool{}
	var queue []ssa.Instruction
	push := func(i, from ssa.Instruction) {
		if seen[i] || (stop != nil && stop(i)) {
			return
		}
		seen[i] = true
		parent[i] = from
		queue = append(queue, i)
	}
	for _, s := range start {
		if incl {
			push(s, nil)
		} else {
			for _, n := range g.Succs(s) {
				push(n, nil)
			}
		}
	}
	for len(queue) > 0 {
		i := queue[0]
		queue = queue[1:]
		if goal(i) {
			var path []ssa.Instruction
			for x := i; x != nil; x = parent[x] {
				path = append([]ssa.Instruction{x}, path...)
			}
			return path
		}
		for _, n := range g.Succs(i) {
			push(n, i)
		}
	}
	return nil
}

// PathToE is PathTo with an additional edge filter: CFG edges for which skip
// returns true are not followed. It is used to rule out infeasible paths when
// the same unmodified condition is tested twice.
func (g *FG) PathToE(start []ssa.Instruction, incl bool, stop, goal func(ssa.Instruction) bool, skip func(from *ssa.BasicBlock, k int) bool) []ssa.Instruction {
	parent := map[ssa.Instruction]ssa.Instruction{}
	seen := map[ssa.Instruction]bool{}
	var queue []ssa.Instruction
	push := func(i, from ssa.Instruction) {
		if seen[i] || (stop != nil && stop(i)) {
			return
		}
		seen[i] = true
		parent[i] = from
		queue = append(queue, i)
	}
	succs := func(i ssa.Instruction) []ssa.Instruction {
		b := i.Block()
		k := g.idx[i]
		if k+1 < len(b.Instrs) {
			return []ssa.Instruction{b.Instrs[k+1]}
		}
		var out []ssa.Instruction
		for n, s := range b.Succs {
			if skip != nil && skip(b, n) {
				continue
			}
			if len(s.Instrs) > 0 {
				out = append(out, s.Instrs[0])
			}
		}
		return out
	}
	for _, s := range start {
		if incl {
			push(s, nil)
		} else {
			for _, n := range succs(s) {
				push(n, nil)
			}
		}
	}
	for len(queue) > 0 {
		i := queue[0]
		queue = queue[1:]
		if goal(i) {
			var path []ssa.Instruction
			for x := i; x != nil; x = parent[x] {
				path = append([]ssa.Instruction{x}, path...)
			}
			return path
		}
		for _, n := range succs(i) {
			push(n, i)
		}
	}
	return nil
}

// contradictsField returns an edge filter that drops the edges on which a
// branch on a load of struct field `field` takes the polarity opposite to
// `want` (valid while the field is not stored to in the function).
func contradictsField(f *ssa.Function, field string, want bool) func(*ssa.BasicBlock, int) bool {
	for _, in := range instrs(f) {
		if st, ok := in.(*ssa.Store); ok {
			if fa, ok := st.Addr.(*ssa.FieldAddr); ok && fieldObj(fa).Name() == field {
				_ = st // the field is assigned here; only branches after the last store are correlated
			}
		}
	}
	return func(b *ssa.BasicBlock, k int) bool {
		if len(b.Instrs) == 0 {
			return false
		}
		iff, ok := b.Instrs[len(b.Instrs)-1].(*ssa.If)
		if !ok {
			return false
		}
		cond, neg := iff.Cond, false
		for {
			u, isU := cond.(*ssa.UnOp)
			if !isU || u.Op != token.NOT {
				break
			}
			cond, neg = u.X, !neg
		}
		ld, ok := cond.(*ssa.UnOp)
		if !ok || ld.Op != token.MUL {
			return false
		}
		fa, ok := ld.X.(*ssa.FieldAddr)
		if !ok || fieldObj(fa).Name() != field {
			return false
		}
		return ((k == 0) != neg) != want
	}
}

// sendPoint is a channel send: a Send instruction, or a send arm of a select.
// After is where execution continues once the send has happened (the
// instruction itself for Send, the first instruction of the arm for select).
type sendPoint struct {
	Instr ssa.Instruction
	Chan  ssa.Value
	After []ssa.Instruction // start set; Incl tells whether it is inclusive
	Incl  bool
}

func sendPoints(f *ssa.Function) []sendPoint {
	var out []sendPoint
	for _, in := range instrs(f) {
		switch x := in.(type) {
		case *ssa.Send:
			out = append(out, sendPoint{Instr: x, Chan: x.Chan, After: []ssa.Instruction{x}})
		case *ssa.Select:
			for k, st := range x.States {
				if st.Dir != types.SendOnly {
					continue
				}
				sp := sendPoint{Instr: x, Chan: st.Chan, After: []ssa.Instruction{x}}
				if arm := selectArmBlock(x, k); arm != nil {
					sp.After = blockStart(arm)
					sp.Incl = true
				}
				out = append(out, sp)
			}
		}
	}
	return out
}

// selectArmBlock returns the block executed when select chose state k.
func selectArmBlock(sel *ssa.Select, k int) *ssa.BasicBlock {
	if sel.Referrers() == nil {
		return nil
	}
	for _, u := range *sel.Referrers() {
		e, ok := u.(*ssa.Extract)
		if !ok || e.Index != 0 || e.Referrers() == nil {
			continue
		}
		for _, uu := range *e.Referrers() {
			b, ok := uu.(*ssa.BinOp)
			if !ok || b.Op != token.EQL {
				continue
			}
			if n, isC := constInt(b.Y); isC && int(n) == k {
				for _, ce := range branchesOn(b) {
					return ce.True
				}
			}
		}
	}
	return nil
}

// blockStart returns the first instruction of a block as a start set.
func blockStart(b *ssa.BasicBlock) []ssa.Instruction {
	if len(b.Instrs) == 0 {
		return nil
	}
	return []ssa.Instruction{b.Instrs[0]}
}

func isExit(i ssa.Instruction) bool {
	switch i.(type) {
	case *ssa.Return, *ssa.Panic:
		return true
	}
	return false
}
func isReturn(i ssa.Instruction) bool { _, ok := i.(*ssa.Return); return ok }

// witness renders an instruction path compactly: the positions of calls,
// branches and the exit along it.
func witness(w *World, path []ssa.Instruction) []string {
	var out []string
	last := ""
	for _, i := range path {
		var s string
		switch x := i.(type) {
		case ssa.CallInstruction:
			s = fmt.Sprintf("%s %s", w.Pos(x.Pos()), describe(x))
		case *ssa.If:
			s = fmt.Sprintf("branch in block %d (%s)", x.Block().Index, x.Block().Comment)
		case *ssa.Return:
			s = fmt.Sprintf("%s return", w.Pos(x.Pos()))
		case *ssa.Panic:
			s = fmt.Sprintf("%s panic", w.Pos(x.Pos()))
		default:
			continue
		}
		if s != last {
			out = append(out, s)
			last = s
		}
	}
	if len(out) > 24 {
		out = append(out[:12], append([]string{"..."}, out[len(out)-11:]...)...)
	}
	return out
}

func describe(c ssa.CallInstruction) string {
	n := calleeName(c)
	if n == "" {
		n = "dynamic call " + c.Common().Value.Name()
	}
	switch c.(type) {
	case *ssa.Go:
		return "go " + n
	case *ssa.Defer:
		return "defer " + n
	}
	return "call " + n
}

// edgeDominates reports whether every path from the entry to target uses the
// CFG edge from -> from.Succs[k].
func edgeDominates(from *ssa.BasicBlock, k int, target *ssa.BasicBlock) bool {
	f := from.Parent()
	seen := map[*ssa.BasicBlock]bool{}
	var walk func(b *ssa.BasicBlock)
	walk = func(b *ssa.BasicBlock) {
		if seen[b] {
			return
		}
		seen[b] = true
		for i, s := range b.Succs {
			if b == from && i == k {
				continue
			}
			walk(s)
		}
	}
	walk(f.Blocks[0])
	if f.Recover != nil {
		walk(f.Recover)
	}
	return !seen[target]
}

// condEdges describes, for a boolean SSA value used as an If condition, the
// successor taken when the value is true and when it is false.
type condEdge struct {
	If    *ssa.If
	True  *ssa.BasicBlock
	False *ssa.BasicBlock
}

// rawTrue is the CFG successor of the branch taken when the value is true,
// before jump threading through a boolean merge.
func (e condEdge) rawTrue() *ssa.BasicBlock {
	b := e.If.Block()
	for _, s := range b.Succs {
		if s == e.True || threadBoolPhi(b, s) == e.True {
			return s
		}
	}
	return e.True
}

// branchesOn finds the If instructions that branch directly on v (possibly
// negated through UnOp !). Short-circuit operators appear as chains of Ifs on
// the individual operands, so this is per leaf.
func branchesOn(v ssa.Value) []condEdge {
	var out []condEdge
	if v.Referrers() == nil {
		return nil
	}
	for _, r := range *v.Referrers() {
		switch x := r.(type) {
		case *ssa.If:
			t, f := x.Block().Succs[0], x.Block().Succs[1]
			if th := threadBoolPhi(x.Block(), t); th != nil {
				t = th
			}
			if th := threadBoolPhi(x.Block(), f); th != nil {
				f = th
			}
			out = append(out, condEdge{x, t, f})
		case *ssa.UnOp:
			if x.Op == token.NOT {
				for _, e := range branchesOn(x) {
					out = append(out, condEdge{e.If, e.False, e.True})
				}
			}
		case *ssa.Phi:
			// the value is one input of a boolean merge that is branched on
			// (`x := a || b || v; if x`): for control arriving with v, the
			// merge's branch is a branch on v
			if phi, neg := boolMerge(x.Block()); phi == x {
				iff := x.Block().Instrs[len(x.Block().Instrs)-1].(*ssa.If)
				if neg {
					out = append(out, condEdge{iff, x.Block().Succs[1], x.Block().Succs[0]})
				} else {
					out = append(out, condEdge{iff, x.Block().Succs[0], x.Block().Succs[1]})
				}
			}
		}
	}
	return out
}

// nilTests finds the branches that compare v with nil: NonNil is the successor
// taken when v != nil.
type nilTest struct {
	If     *ssa.If
	NonNil *ssa.BasicBlock
	Nil    *ssa.BasicBlock
}

func isNilConst(v ssa.Value) bool {
	c, ok := v.(*ssa.Const)
	return ok && c.IsNil()
}

func nilTests(v ssa.Value) []nilTest {
	var out []nilTest
	if v.Referrers() == nil {
		return nil
	}
	for _, r := range *v.Referrers() {
		b, ok := r.(*ssa.BinOp)
		if !ok || (b.Op != token.NEQ && b.Op != token.EQL) {
			continue
		}
		if !(isNilConst(b.X) || isNilConst(b.Y)) {
			continue
		}
		for _, e := range branchesOn(b) {
			if b.Op == token.NEQ {
				out = append(out, nilTest{e.If, e.True, e.False})
			} else {
				out = append(out, nilTest{e.If, e.False, e.True})
			}
		}
	}
	return out
}

// errOf returns the error-typed result value(s) of a call: the call itself if
// it returns a single error, or the Extract of the error component.
func errOf(c *ssa.Call) []ssa.Value {
	sig := c.Call.Signature()
	res := sig.Results()
	var out []ssa.Value
	if res.Len() == 1 {
		if isErrorType(res.At(0).Type()) {
			out = append(out, c)
		}
		return out
	}
	if c.Referrers() == nil {
		return nil
	}
	for _, r := range *c.Referrers() {
		if e, ok := r.(*ssa.Extract); ok && isErrorType(res.At(e.Index).Type()) {
			out = append(out, e)
		}
	}
	return out
}

func resultOf(c *ssa.Call, idx int) ssa.Value {
	if c.Call.Signature().Results().Len() == 1 {
		if idx == 0 {
			return c
		}
		return nil
	}
	if c.Referrers() == nil {
		return nil
	}
	for _, r := range *c.Referrers() {
		if e, ok := r.(*ssa.Extract); ok && e.Index == idx {
			return e
		}
	}
	return nil
}

func isErrorType(t types.Type) bool {
	return types.Identical(t, types.Universe.Lookup("error").Type())
}

// errTests returns the nil tests of a call's error result, following a store
// into a local variable that is re-loaded (named results / reused err vars
// are phis in SSA, so following phis one level is enough).
func errTests(c *ssa.Call) []nilTest {
	var out []nilTest
	seen := map[ssa.Value]bool{}
	var visit func(v ssa.Value, depth int)
	visit = func(v ssa.Value, depth int) {
		if seen[v] || depth > 3 {
			return
		}
		seen[v] = true
		out = append(out, nilTests(v)...)
		if v.Referrers() == nil {
			return
		}
		for _, r := range *v.Referrers() {
			switch x := r.(type) {
			case *ssa.Phi:
				visit(x, depth+1)
			case *ssa.MakeInterface:
				visit(x, depth+1)
			}
		}
	}
	for _, e := range errOf(c) {
		visit(e, 0)
	}
	return out
}

// ---------------------------------------------------------------------------
// acyclic block paths with phi resolution (P10)

// blockPaths enumerates acyclic block paths starting at b and ending in a
// block whose terminator is Return or Panic. limit bounds the number of paths;
// ok=false if exceeded.
func blockPaths(b *ssa.BasicBlock, limit int) (paths [][]*ssa.BasicBlock, ok bool) {
	ok = true
	var cur []*ssa.BasicBlock
	on := map[*ssa.BasicBlock]bool{}
	var walk func(x *ssa.BasicBlock)
	walk = func(x *ssa.BasicBlock) {
		if !ok || on[x] {
			return
		}
		cur = append(cur, x)
		on[x] = true
		if len(x.Succs) == 0 {
			if len(paths) >= limit {
				ok = false
			} else if pathFeasible(cur) {
				paths = append(paths, append([]*ssa.BasicBlock(nil), cur...))
			}
		}
		for _, s := range x.Succs {
			walk(s)
		}
		on[x] = false
		cur = cur[:len(cur)-1]
	}
	walk(b)
	return
}

// blockPathsE is blockPaths for paths that begin with the CFG edge from -> b:
// the edge is part of the path, so that what is known from taking it (the
// branch condition of `from`) takes part in the feasibility test.
func blockPathsE(from, b *ssa.BasicBlock, limit int) (paths [][]*ssa.BasicBlock, ok bool) {
	ok = true
	cur := []*ssa.BasicBlock{from}
	on := map[*ssa.BasicBlock]bool{}
	var walk func(x *ssa.BasicBlock)
	walk = func(x *ssa.BasicBlock) {
		if !ok || on[x] {
			return
		}
		cur = append(cur, x)
		on[x] = true
		if len(x.Succs) == 0 {
			if len(paths) >= limit {
				ok = false
			} else if pathFeasible(cur) {
				paths = append(paths, append([]*ssa.BasicBlock(nil), cur...))
			}
		}
		for _, s := range x.Succs {
			walk(s)
		}
		on[x] = false
		cur = cur[:len(cur)-1]
	}
	walk(b)
	return
}

// resolveStrict follows only the phis the path decides (a phi in a block of
// the path other than its first block); any other value, including a phi the
// path says nothing about, is returned as it is.
func resolveStrict(v ssa.Value, path []*ssa.BasicBlock) ssa.Value {
	pos := map[*ssa.BasicBlock]int{}
	for i, b := range path {
		pos[b] = i
	}
	for depth := 0; depth < 32; depth++ {
		phi, ok := v.(*ssa.Phi)
		if !ok {
			return v
		}
		i, on := pos[phi.Block()]
		if !on || i == 0 {
			return v
		}
		found := false
		for k, p := range phi.Block().Preds {
			if p == path[i-1] {
				v = phi.Edges[k]
				found = true
				break
			}
		}
		if !found {
			return v
		}
	}
	return v
}

// pathFeasible rejects a block path that takes a branch contradicting what
// the path itself determines: an `x == nil` / `x != nil` test whose operand,
// resolved along the path, is the nil constant (or a value that is certainly
// not nil: a loaded package-level sentinel such as errClose, a MakeInterface,
// an allocation) while the path takes the other edge. Only single, definite
// resolutions prune; everything else is kept (over-approximation).
func pathFeasible(path []*ssa.BasicBlock) bool {
	facts := map[ssa.Value]bool{}
	nilFacts := map[ssa.Value]bool{}
	for i := 0; i+1 < len(path); i++ {
		b := path[i]
		if len(b.Instrs) == 0 {
			continue
		}
		iff, ok := b.Instrs[len(b.Instrs)-1].(*ssa.If)
		if !ok || b.Succs[0] == b.Succs[1] {
			continue
		}
		// a boolean condition whose value the path determines: a flag merged from
		// constants (`closeAfter := false; if c {closeAfter = true}; ...; if
		// closeAfter`), or a value the path has already branched on (correlated
		// branches: `x := a || b; if x {...}; ...; if x {...}`)
		{
			cond, neg := iff.Cond, false
			for {
				u, isU := cond.(*ssa.UnOp)
				if !isU || u.Op != token.NOT {
					break
				}
				cond, neg = u.X, !neg
			}
			if _, isBin := cond.(*ssa.BinOp); !isBin {
				leaf := resolveStrict(cond, path[:i+1])
				taken := (path[i+1] == b.Succs[0]) != neg // truth of leaf on this path
				if v, isC := constBool(leaf); isC {
					if v != taken {
						return false
					}
					continue
				}
				if prev, known := facts[leaf]; known {
					if prev != taken {
						return false
					}
				} else {
					facts[leaf] = taken
				}
				continue
			}
		}
		bin, ok := iff.Cond.(*ssa.BinOp)
		if !ok || (bin.Op != token.EQL && bin.Op != token.NEQ) {
			continue
		}
		x := bin.X
		if isNilConst(x) {
			x = bin.Y
		} else if !isNilConst(bin.Y) {
			continue
		}
		leaf := resolveStrict(x, path[:i+1])
		isNil, known := false, false
		switch l := leaf.(type) {
		case *ssa.Const:
			if l.IsNil() {
				isNil, known = true, true
			}
		case *ssa.MakeInterface, *ssa.Alloc, *ssa.MakeClosure, *ssa.MakeMap, *ssa.MakeChan, *ssa.MakeSlice:
			isNil, known = false, true
		case *ssa.Call:
			if n := calleeName(l); n == "fmt.Errorf" || n == "errors.New" {
				isNil, known = false, true
			}
		case *ssa.UnOp:
			if g, isG := l.X.(*ssa.Global); isG && l.Op == token.MUL && sentinelGlobal(g) {
				isNil, known = false, true // initialised once in init with a fresh value, never assigned again
			}
		}
		if !known {
			// correlated tests of one value: `if err != nil {...}` ... `if err != nil {...}`
			takenNil := (path[i+1] == b.Succs[0]) == (bin.Op == token.EQL)
			if prev, seen := nilFacts[leaf]; seen {
				if prev != takenNil {
					return false
				}
			} else {
				nilFacts[leaf] = takenNil
			}
			continue
		}
		takenTrue := path[i+1] == b.Succs[0]
		condTrue := isNil == (bin.Op == token.EQL)
		if takenTrue != condTrue {
			return false
		}
	}
	return true
}

var sentinelCache = map[*ssa.Global]bool{}

// sentinelGlobal: a package-level variable whose only store in its package is
// in the package initialiser and stores a call result or MakeInterface (e.g.
// `var errClose = errors.New(...)`), so that a load of it is never nil.
func sentinelGlobal(g *ssa.Global) bool {
	if v, ok := sentinelCache[g]; ok {
		return v
	}
	ok := false
	n := 0
	if g.Pkg != nil {
		for _, m := range g.Pkg.Members {
			fn, isFn := m.(*ssa.Function)
			if !isFn {
				continue
			}
			var all []*ssa.Function
			all = append(all, fn)
			for k := 0; k < len(all); k++ {
				all = append(all, all[k].AnonFuncs...)
			}
			for _, f := range all {
				for _, i := range instrs(f) {
					if st, isSt := i.(*ssa.Store); isSt && st.Addr == ssa.Value(g) {
						n++
						switch st.Val.(type) {
						case *ssa.Call, *ssa.MakeInterface:
							ok = f.Name() == "init"
						}
					}
				}
			}
		}
		// methods
		for _, m := range g.Pkg.Members {
			if t, isT := m.(*ssa.Type); isT {
				for _, T := range []types.Type{t.Type(), types.NewPointer(t.Type())} {
					ms := g.Pkg.Prog.MethodSets.MethodSet(T)
					for k := 0; k < ms.Len(); k++ {
						if f := g.Pkg.Prog.MethodValue(ms.At(k)); f != nil {
							for _, i := range instrs(f) {
								if st, isSt := i.(*ssa.Store); isSt && st.Addr == ssa.Value(g) {
									n++
								}
							}
						}
					}
				}
			}
		}
	}
	sentinelCache[g] = ok && n == 1
	return sentinelCache[g]
}

// resolveOnPath resolves v to the set of non-phi values it can take when
// control follows path (a block sequence). Phis located in a block of the path
// (other than its first block) select the edge of the actual predecessor; other
// phis contribute all their edges.
func resolveOnPath(v ssa.Value, path []*ssa.BasicBlock) []ssa.Value {
	return resolveOnPathUntil(v, path, nil)
}

// resolveOnPathUntil: as resolveOnPath; a value for which stop holds is reported as it is (a
// merge the caller knows something about, e.g. the operand of the test the path starts from).
func resolveOnPathUntil(v ssa.Value, path []*ssa.BasicBlock, stop func(ssa.Value) bool) []ssa.Value {
	pos := map[*ssa.BasicBlock]int{}
	for i, b := range path {
		pos[b] = i
	}
	var out []ssa.Value
	seen := map[ssa.Value]bool{}
	var res func(v ssa.Value)
	res = func(v ssa.Value) {
		if seen[v] {
			return
		}
		seen[v] = true
		phi, ok := v.(*ssa.Phi)
		if !ok || (stop != nil && stop(v)) {
			out = append(out, v)
			return
		}
		b := phi.Block()
		if i, on := pos[b]; on && i > 0 {
			pred := path[i-1]
			for k, p := range b.Preds {
				if p == pred {
					res(phi.Edges[k])
				}
			}
			return
		}
		for _, e := range phi.Edges {
			res(e)
		}
	}
	res(v)
	return out
}

// ---------------------------------------------------------------------------
// P6 value flow (backward slice on def-use)

type flowOpt struct {
	Fields  bool // follow loads of struct fields to every store of the same field object in the module
	Calls   bool // follow results of module functions into their return operands
	Params  bool // follow parameters to the arguments at static call sites in the module
	BinOps  bool // follow both operands of binary operators (concatenation, arithmetic)
	CallArg bool // follow through calls of the listed transparent functions (first matching arg)
	Through map[string]bool
}

// backSlice returns every value in the backward slice of v.
func (w *World) backSlice(v ssa.Value, opt flowOpt) map[ssa.Value]bool {
	seen := map[ssa.Value]bool{}
	var visit func(v ssa.Value)
	visit = func(v ssa.Value) {
		if v == nil || seen[v] {
			return
		}
		seen[v] = true
		switch x := v.(type) {
		case *ssa.Phi:
			for _, e := range x.Edges {
				visit(e)
			}
			// short-circuit && / ||: a boolean phi also depends on the conditions its
			// predecessors branch on
			allConst := true
			for _, e := range x.Edges {
				if _, isC := e.(*ssa.Const); !isC {
					allConst = false
				}
			}
			if b, ok := x.Type().Underlying().(*types.Basic); (ok && b.Kind() == types.Bool) || allConst {
				for _, p := range x.Block().Preds {
					if len(p.Instrs) > 0 {
						if br, ok := p.Instrs[len(p.Instrs)-1].(*ssa.If); ok {
							visit(br.Cond)
						}
					}
				}
			}
		case *ssa.MakeSlice:
			// contents copied into the fresh slice
			if x.Referrers() != nil {
				for _, u := range *x.Referrers() {
					if c, ok := u.(*ssa.Call); ok {
						if b, ok := c.Call.Value.(*ssa.Builtin); ok && b.Name() == "copy" && c.Call.Args[0] == ssa.Value(x) {
							visit(c.Call.Args[1])
						}
					}
				}
			}
		case *ssa.ChangeType:
			visit(x.X)
		case *ssa.Convert:
			visit(x.X)
		case *ssa.ChangeInterface:
			visit(x.X)
		case *ssa.MakeInterface:
			visit(x.X)
		case *ssa.TypeAssert:
			visit(x.X)
		case *ssa.Slice:
			visit(x.X)
		case *ssa.SliceToArrayPointer:
			visit(x.X)
		case *ssa.Extract:
			visit(x.Tuple)
		case *ssa.Field:
			visit(x.X)
		case *ssa.Index:
			visit(x.X)
		case *ssa.Lookup:
			visit(x.X)
		case *ssa.IndexAddr:
			visit(x.X)
		case *ssa.FieldAddr:
			visit(x.X)
		case *ssa.MakeClosure:
			visit(x.Fn)
		case *ssa.Alloc:
			// pointer to a local: what is stored in it, directly or through its fields / elements
			for _, st := range storesTo(x) {
				visit(st.Val)
			}
			var sub func(a ssa.Value, depth int)
			sub = func(a ssa.Value, depth int) {
				if a.Referrers() == nil || depth > 3 {
					return
				}
				for _, u := range *a.Referrers() {
					switch y := u.(type) {
					case *ssa.FieldAddr:
						if y.X == a {
							for _, uu := range *y.Referrers() {
								if st, ok := uu.(*ssa.Store); ok && st.Addr == ssa.Value(y) {
									visit(st.Val)
								}
							}
							sub(y, depth+1)
						}
					case *ssa.IndexAddr:
						if y.X == a {
							for _, uu := range *y.Referrers() {
								if st, ok := uu.(*ssa.Store); ok && st.Addr == ssa.Value(y) {
									visit(st.Val)
								}
							}
							sub(y, depth+1)
						}
					}
				}
			}
			sub(x, 0)
		case *ssa.BinOp:
			if opt.BinOps {
				visit(x.X)
				visit(x.Y)
			}
		case *ssa.UnOp:
			if x.Op != token.MUL {
				visit(x.X)
				return
			}
			// load
			visit(x.X)
			switch a := x.X.(type) {
			case *ssa.Alloc:
				for _, st := range storesTo(a) {
					visit(st.Val)
				}
			case *ssa.FieldAddr:
				if opt.Fields {
					fo := fieldObj(a)
					for _, st := range w.fieldStores(fo) {
						visit(st.Val)
					}
				}
			case *ssa.Global:
				for _, f := range w.fns {
					for _, in := range instrs(f) {
						if st, ok := in.(*ssa.Store); ok && st.Addr == a {
							visit(st.Val)
						}
					}
				}
			case *ssa.IndexAddr:
				// element of a local array/slice: stores through any IndexAddr of the same base
				if a.X.Referrers() != nil {
					for _, r := range *a.X.Referrers() {
						if ia, ok := r.(*ssa.IndexAddr); ok && ia.Referrers() != nil {
							for _, rr := range *ia.Referrers() {
								if st, ok := rr.(*ssa.Store); ok && st.Addr == ia {
									visit(st.Val)
								}
							}
						}
					}
				}
			}
		case *ssa.FreeVar:
			// bound in the parent's MakeClosure
			fn := x.Parent()
			idx := -1
			for i, fv := range fn.FreeVars {
				if fv == x {
					idx = i
				}
			}
			if p := fn.Parent(); p != nil && idx >= 0 {
				for _, in := range instrs(p) {
					if mc, ok := in.(*ssa.MakeClosure); ok && mc.Fn == fn {
						visit(mc.Bindings[idx])
					}
				}
			}
		case *ssa.Call:
			if b, ok := x.Call.Value.(*ssa.Builtin); ok && b.Name() == "append" {
				for _, a := range x.Call.Args {
					visit(a)
				}
			}
			if opt.Through != nil && opt.Through[calleeName(x)] {
				for _, a := range x.Call.Args {
					visit(a)
				}
				if x.Call.IsInvoke() {
					visit(x.Call.Value)
				}
			}
			if opt.Calls {
				if f := x.Call.StaticCallee(); f != nil && f.Blocks != nil {
					for _, r := range returns(f) {
						for _, res := range r.Results {
							visit(res)
						}
					}
				}
			}
		case *ssa.Parameter:
			if opt.Params {
				fn := x.Parent()
				idx := -1
				for i, p := range fn.Params {
					if p == x {
						idx = i
					}
				}
				for _, site := range w.staticCallers(fn) {
					args := site.Common().Args
					if idx >= 0 && idx < len(args) {
						visit(args[idx])
					}
				}
			}
		}
	}
	visit(v)
	return seen
}

func storesTo(a *ssa.Alloc) []*ssa.Store {
	var out []*ssa.Store
	if a.Referrers() == nil {
		return nil
	}
	for _, r := range *a.Referrers() {
		if st, ok := r.(*ssa.Store); ok && st.Addr == a {
			out = append(out, st)
		}
	}
	return out
}

// fieldObj returns the *types.Var of the field addressed.
func fieldObj(fa *ssa.FieldAddr) *types.Var {
	t := fa.X.Type().Underlying().(*types.Pointer).Elem().Underlying().(*types.Struct)
	return t.Field(fa.Field)
}
func fieldObjV(f *ssa.Field) *types.Var {
	return f.X.Type().Underlying().(*types.Struct).Field(f.Field)
}

// fieldStores returns every store in the module whose address is a FieldAddr
// of the given field object.
func (w *World) fieldStores(fo *types.Var) []*ssa.Store {
	var out []*ssa.Store
	for _, f := range w.fns {
		for _, in := range instrs(f) {
			if st, ok := in.(*ssa.Store); ok {
				if fa, ok := st.Addr.(*ssa.FieldAddr); ok && fieldObj(fa) == fo {
					out = append(out, st)
				}
			}
		}
	}
	return out
}

// dynamicCallers (thorough tier only) lists module functions that the VTA call
// graph says can call fn through an interface or a function value, and that
// are not among its static call sites. Empty in the quick tier.
func (w *World) dynamicCallers(fn *ssa.Function) []*ssa.Function {
	if !w.full || fn == nil {
		return nil
	}
	cg := w.CallGraph()
	n := cg.Nodes[fn]
	if n == nil {
		return nil
	}
	static := map[*ssa.Function]bool{}
	for _, c := range w.staticCallers(fn) {
		static[c.Parent()] = true
	}
	seen := map[*ssa.Function]bool{}
	var out []*ssa.Function
	for _, e := range n.In {
		caller := e.Caller.Func
		if caller == nil || caller.Pkg == nil || !strings.HasPrefix(caller.Pkg.Pkg.Path(), M) {
			continue
		}
		if e.Site != nil && e.Site.Common().StaticCallee() == fn {
			continue
		}
		// synthetic wrappers (bound methods, thunks) stand for their own callers
		if caller.Synthetic != "" {
			continue
		}
		if !static[caller] && !seen[caller] {
			seen[caller] = true
			out = append(out, caller)
		}
	}
	sort.Slice(out, func(i, j int) bool { return out[i].String() < out[j].String() })
	return out
}

// dynamicCallerRule records, in the thorough tier, that fn has no callers
// beyond its static call sites according to the whole-program VTA call graph.
func (r *Report) dynamicCallerRule(fn *ssa.Function, why string) {
	if !r.W.full || fn == nil {
		return
	}
	dyn := r.W.dynamicCallers(fn)
	var names []string
	for _, f := range dyn {
		names = append(names, fnName(f))
	}
	r.Decide("callgraph", "VTA call graph: "+fnName(fn)+" is reached only through its static call sites", len(dyn) == 0, "no interface / function-value edge into it from module code", fmt.Sprintf("%v can call it dynamically (%s)", names, why), fn.Pos())
}

// staticCallers lists call sites in the module whose static callee is fn.
func (w *World) staticCallers(fn *ssa.Function) []ssa.CallInstruction {
	var out []ssa.CallInstruction
	for _, f := range w.fns {
		for _, in := range instrs(f) {
			if c, ok := in.(ssa.CallInstruction); ok && c.Common().StaticCallee() == fn {
				out = append(out, c)
			}
		}
	}
	return out
}

// anyIn reports whether some value of the slice satisfies pred.
func anyIn(s map[ssa.Value]bool, pred func(ssa.Value) bool) bool {
	for v := range s {
		if pred(v) {
			return true
		}
	}
	return false
}

// isFieldLoadOf: v is a load (or address) of field `name` of named type T
// (package path + type name), or a Field on a value.
func isFieldRef(v ssa.Value, pkgPath, typeName, field string) bool {
	var st types.Type
	var idx int
	switch x := v.(type) {
	case *ssa.FieldAddr:
		st = x.X.Type().Underlying().(*types.Pointer).Elem()
		idx = x.Field
	case *ssa.Field:
		st = x.X.Type()
		idx = x.Field
	default:
		return false
	}
	n, ok := st.(*types.Named)
	if !ok {
		return false
	}
	if n.Obj().Name() != typeName || n.Obj().Pkg() == nil || n.Obj().Pkg().Path() != pkgPath {
		return false
	}
	s := n.Underlying().(*types.Struct)
	return s.Field(idx).Name() == field
}

func isCallValue(v ssa.Value, names ...string) bool {
	c, ok := v.(*ssa.Call)
	if !ok {
		return false
	}
	_, ok = isCall(c, names...)
	return ok
}

func constString(v ssa.Value) (string, bool) {
	c, ok := v.(*ssa.Const)
	if !ok || c.Value == nil || c.Value.Kind() != constant.String {
		return "", false
	}
	return constant.StringVal(c.Value), true
}

func constInt(v ssa.Value) (int64, bool) {
	c, ok := v.(*ssa.Const)
	if !ok || c.Value == nil || c.Value.Kind() != constant.Int {
		return 0, false
	}
	n, ok := constant.Int64Val(c.Value)
	return n, ok
}

func constBool(v ssa.Value) (bool, bool) {
	c, ok := v.(*ssa.Const)
	if !ok || c.Value == nil || c.Value.Kind() != constant.Bool {
		return false, false
	}
	return constant.BoolVal(c.Value), true
}

// ---------------------------------------------------------------------------
// P5 lockset

// pathOf renders an SSA value as an access path, used to name mutexes and the
// objects they guard. Two values with the same path denote the same location
// as long as none of the path's components is reassigned in between (true for
// receiver/parameter rooted paths, which is all the rules use).
func pathOf(v ssa.Value) string {
	switch x := v.(type) {
	case *ssa.Parameter:
		return x.Name()
	case *ssa.FreeVar:
		return x.Name()
	case *ssa.Global:
		return short(x.Pkg.Pkg.Path()) + "." + x.Name()
	case *ssa.FieldAddr:
		return pathOf(x.X) + "." + fieldObj(x).Name()
	case *ssa.Field:
		return pathOf(x.X) + "." + fieldObjV(x).Name()
	case *ssa.UnOp:
		if x.Op == token.MUL {
			return pathOf(x.X)
		}
	case *ssa.IndexAddr:
		return pathOf(x.X) + "[" + pathOf(x.Index) + "]"
	case *ssa.Index:
		return pathOf(x.X) + "[" + pathOf(x.Index) + "]"
	case *ssa.Lookup:
		return pathOf(x.X) + "[" + pathOf(x.Index) + "]"
	case *ssa.Const:
		if x.Value == nil {
			return "nil"
		}
		return x.Value.String()
	case *ssa.Alloc:
		// a spilled parameter (captured by a closure): named after the parameter
		if sts := storesTo(x); len(sts) == 1 {
			if p, ok := sts[0].Val.(*ssa.Parameter); ok {
				return p.Name()
			}
		}
	case *ssa.ChangeType:
		return pathOf(x.X)
	case *ssa.MakeInterface:
		return pathOf(x.X)
	case *ssa.TypeAssert:
		return pathOf(x.X)
	}
	return "%" + v.Name()
}

var lockOps = map[string]string{
	"(*sync.Mutex).Lock":      "+W",
	"(*sync.Mutex).Unlock":    "-W",
	"(*sync.RWMutex).Lock":    "+W",
	"(*sync.RWMutex).Unlock":  "-W",
	"(*sync.RWMutex).RLock":   "+R",
	"(*sync.RWMutex).RUnlock": "-R",
}

type lockset map[string]bool // "W:path" / "R:path"

func (l lockset) clone() lockset {
	n := lockset{}
	for k := range l {
		n[k] = true
	}
	return n
}
func (l lockset) held(path string) bool  { return l["W:"+path] || l["R:"+path] }
func (l lockset) heldW(path string) bool { return l["W:"+path] }
func (l lockset) String() string {
	var s []string
	for k := range l {
		s = append(s, k)
	}
	sort.Strings(s)
	return "{" + strings.Join(s, ",") + "}"
}

func intersect(a, b lockset) lockset {
	n := lockset{}
	for k := range a {
		if b[k] {
			n[k] = true
		}
	}
	return n
}

// closureEntryLocks: the locks certainly held whenever the function literal f
// runs, when f is only ever called synchronously from its parent: called
// directly, or handed as an argument to a module function that does nothing
// with that parameter but call it (a visitor passed to an iterator helper).
// Anything else - go, defer, stored, returned - gives the empty set.
func (w *World) closureEntryLocks(f *ssa.Function) lockset {
	par := f.Parent()
	if par == nil {
		return nil
	}
	var mcs []ssa.Value
	for _, in := range instrs(par) {
		if mc, ok := in.(*ssa.MakeClosure); ok && mc.Fn == ssa.Value(f) {
			mcs = append(mcs, mc)
		}
	}
	if len(mcs) == 0 {
		// a literal without captures is referred to as a plain function value
		mcs = append(mcs, f)
	}
	pst := lockStates(par, w.closureEntryLocks(par))
	var acc lockset
	meet := func(ls lockset) {
		if acc == nil {
			acc = ls.clone()
			return
		}
		for k := range acc {
			if !ls[k] {
				delete(acc, k)
			}
		}
	}
	onlyCalls := func(g *ssa.Function, idx int) bool {
		if g == nil || g.Blocks == nil || idx >= len(g.Params) {
			return false
		}
		p := g.Params[idx]
		if p.Referrers() == nil {
			return true
		}
		for _, u := range *p.Referrers() {
			switch x := u.(type) {
			case *ssa.Call:
				if x.Call.Value != ssa.Value(p) {
					return false
				}
			case *ssa.DebugRef:
			default:
				return false
			}
		}
		return true
	}
	uses := 0
	for _, mc := range mcs {
		// the closure value itself and the local variables it is copied to
		vals := map[ssa.Value]bool{mc: true}
		for _, in := range instrs(par) {
			c, isCall := in.(*ssa.Call)
			if !isCall {
				if d, isD := in.(*ssa.Defer); isD {
					for _, a := range append([]ssa.Value{d.Call.Value}, d.Call.Args...) {
						if vals[a] {
							return lockset{}
						}
					}
				}
				if g, isG := in.(*ssa.Go); isG {
					for _, a := range append([]ssa.Value{g.Call.Value}, g.Call.Args...) {
						if vals[a] {
							return lockset{}
						}
					}
				}
				continue
			}
			direct := false
			for _, l := range resolveAll(c.Call.Value) {
				if vals[l] {
					direct = true
				}
			}
			if direct && !c.Call.IsInvoke() {
				uses++
				meet(pst[in])
				continue
			}
			for k, a := range c.Call.Args {
				hit := vals[a]
				for _, l := range resolveAll(a) {
					if vals[l] {
						hit = true
					}
				}
				if !hit {
					continue
				}
				callee := c.Call.StaticCallee()
				idx := k
				if callee == nil || !onlyCalls(callee, idx) {
					return lockset{}
				}
				uses++
				meet(pst[in])
			}
		}
		// stored anywhere: unknown callers
		if inst, isI := mc.(ssa.Instruction); isI {
			if v, isV := inst.(ssa.Value); isV && v.Referrers() != nil {
				for _, u := range *v.Referrers() {
					switch u.(type) {
					case *ssa.Store, *ssa.Return, *ssa.MakeInterface, *ssa.Send, *ssa.MapUpdate:
						return lockset{}
					}
				}
			}
		}
	}
	if uses == 0 || acc == nil {
		return lockset{}
	}
	return acc
}

// lockStates computes the must-hold lockset before every instruction of f.
// entry is the lockset assumed at function entry (for helpers documented as
// "caller must hold"). Deferred unlocks keep the lock held until exit.
func lockStates(f *ssa.Function, entry lockset) map[ssa.Instruction]lockset {
	if entry == nil {
		entry = lockset{}
	}
	in := map[*ssa.BasicBlock]lockset{}
	out := map[*ssa.BasicBlock]lockset{}
	transfer := func(l lockset, i ssa.Instruction) lockset {
		c, ok := i.(*ssa.Call) // defers and go statements do not change the set
		if !ok {
			return l
		}
		op, ok := lockOps[calleeName(c)]
		if !ok {
			return l
		}
		p := pathOf(c.Call.Args[0])
		n := l.clone()
		key := op[1:] + ":" + p
		if op[0] == '+' {
			n[key] = true
		} else {
			delete(n, key)
		}
		return n
	}
	in[f.Blocks[0]] = entry
	changed := true
	reached := map[*ssa.BasicBlock]bool{f.Blocks[0]: true}
	for changed {
		changed = false
		for _, b := range f.Blocks {
			if !reached[b] {
				continue
			}
			l := in[b]
			for _, i := range b.Instrs {
				l = transfer(l, i)
			}
			if o, ok := out[b]; !ok || len(o) != len(l) {
				out[b] = l
				changed = true
			}
			for _, s := range b.Succs {
				if !reached[s] {
					reached[s] = true
					in[s] = l.clone()
					changed = true
				} else {
					n := intersect(in[s], l)
					if len(n) != len(in[s]) {
						in[s] = n
						changed = true
					}
				}
			}
		}
	}
	states := map[ssa.Instruction]lockset{}
	for _, b := range f.Blocks {
		if !reached[b] {
			continue
		}
		l := in[b]
		for _, i := range b.Instrs {
			states[i] = l
			l = transfer(l, i)
		}
	}
	return states
}

// fieldAccess is one load or store of a struct field in the module.
type fieldAccess struct {
	Fn    *ssa.Function
	Instr ssa.Instruction
	Addr  *ssa.FieldAddr
	Write bool
	Base  string // access path of the struct
}

// fieldAccesses lists every access to field `field` of named struct type in
// the module. An access whose FieldAddr is only passed on (e.g. &x.f handed to
// a helper, or a method call on an embedded value) counts as a write.
func (w *World) fieldAccesses(fo *types.Var) []fieldAccess {
	var out []fieldAccess
	for _, f := range w.fns {
		for _, in := range instrs(f) {
			fa, ok := in.(*ssa.FieldAddr)
			if !ok || fieldObj(fa) != fo {
				continue
			}
			if fa.Referrers() == nil {
				continue
			}
			for _, r := range *fa.Referrers() {
				acc := fieldAccess{Fn: f, Instr: r, Addr: fa, Base: pathOf(fa.X)}
				switch x := r.(type) {
				case *ssa.UnOp:
					acc.Write = false
				case *ssa.Store:
					acc.Write = x.Addr == fa
				case *ssa.DebugRef:
					continue
				default:
					acc.Write = true
				}
				out = append(out, acc)
			}
		}
	}
	return out
}

// structField looks up a field object by name.
func structField(n *types.Named, name string) *types.Var {
	if n == nil {
		return nil
	}
	s, ok := n.Underlying().(*types.Struct)
	if !ok {
		return nil
	}
	for i := 0; i < s.NumFields(); i++ {
		if s.Field(i).Name() == name {
			return s.Field(i)
		}
	}
	return nil
}

// freshBase reports whether the struct whose field is addressed was allocated
// in the same function (constructor exemption): the base is an Alloc or a
// value derived only from one.
func freshBase(fa *ssa.FieldAddr) bool {
	v := fa.X
	for {
		switch x := v.(type) {
		case *ssa.Alloc:
			return true
		case *ssa.FieldAddr:
			v = x.X
		case *ssa.IndexAddr:
			v = x.X
		default:
			return false
		}
	}
}

// fnName is the abbreviated name of an ssa function.
func fnName(f *ssa.Function) string { return short(f.String()) }

// ---------------------------------------------------------------------------
// P4 path event counting

// cnt is a (min,max) pair of occurrences saturated at 2.
type cnt struct{ Min, Max int }

func (c cnt) String() string {
	s := func(n int) string {
		if n >= 2 {
			return "2+"
		}
		return fmt.Sprint(n)
	}
	return "(" + s(c.Min) + "," + s(c.Max) + ")"
}
func sat(n int) int {
	if n > 2 {
		return 2
	}
	return n
}

// countBefore computes, for every instruction, the minimum and maximum number
// of event instructions executed on paths from the entry to just before it.
func countBefore(f *ssa.Function, event func(ssa.Instruction) bool) map[ssa.Instruction]cnt {
	in := map[*ssa.BasicBlock]cnt{}
	reached := map[*ssa.BasicBlock]bool{f.Blocks[0]: true}
	in[f.Blocks[0]] = cnt{0, 0}
	for changed := true; changed; {
		changed = false
		for _, b := range f.Blocks {
			if !reached[b] {
				continue
			}
			c := in[b]
			for _, i := range b.Instrs {
				if event(i) {
					c = cnt{sat(c.Min + 1), sat(c.Max + 1)}
				}
			}
			for _, s := range b.Succs {
				if !reached[s] {
					reached[s] = true
					in[s] = c
					changed = true
					continue
				}
				n := in[s]
				if c.Min < n.Min {
					n.Min = c.Min
				}
				if c.Max > n.Max {
					n.Max = c.Max
				}
				if n != in[s] {
					in[s] = n
					changed = true
				}
			}
		}
	}
	out := map[ssa.Instruction]cnt{}
	for _, b := range f.Blocks {
		if !reached[b] {
			continue
		}
		c := in[b]
		for _, i := range b.Instrs {
			out[i] = c
			if event(i) {
				c = cnt{sat(c.Min + 1), sat(c.Max + 1)}
			}
		}
	}
	return out
}

// inLoop reports whether the block lies on a CFG cycle.
func inLoop(b *ssa.BasicBlock) bool {
	seen := map[*ssa.BasicBlock]bool{}
	var walk func(x *ssa.BasicBlock) bool
	walk = func(x *ssa.BasicBlock) bool {
		for _, s := range x.Succs {
			if s == b {
				return true
			}
			if !seen[s] {
				seen[s] = true
				if walk(s) {
					return true
				}
			}
		}
		return false
	}
	return walk(b)
}

// retVal returns the value actually returned as result idx by r, undoing the
// defer spill (`*t0 = v; rundefers; t = *t0; return t`).
func retVals(r *ssa.Return, idx int) []ssa.Value {
	v := r.Results[idx]
	ld, ok := v.(*ssa.UnOp)
	if !ok || ld.Op != token.MUL {
		return []ssa.Value{v}
	}
	a, ok := ld.X.(*ssa.Alloc)
	if !ok {
		return []ssa.Value{v}
	}
	// last store to a in this block before the load
	b := r.Block()
	var last *ssa.Store
	for _, i := range b.Instrs {
		if i == ssa.Instruction(ld) {
			break
		}
		if st, ok := i.(*ssa.Store); ok && st.Addr == a {
			last = st
		}
	}
	if last != nil {
		return []ssa.Value{last.Val}
	}
	var out []ssa.Value
	for _, st := range storesTo(a) {
		out = append(out, st.Val)
	}
	return out
}

// errClass classifies an error value: "nil", "global:<name>" for a load of a
// package-level variable, "call:<callee>" for a call result, "param", "other".
func errClass(v ssa.Value) string {
	switch x := v.(type) {
	case *ssa.Const:
		if x.IsNil() {
			return "nil"
		}
	case *ssa.UnOp:
		if g, ok := x.X.(*ssa.Global); ok && x.Op == token.MUL {
			return "global:" + g.Name()
		}
	case *ssa.Call:
		return "call:" + calleeName(x)
	case *ssa.Extract:
		if c, ok := x.Tuple.(*ssa.Call); ok {
			return "call:" + calleeName(c)
		}
	case *ssa.Parameter:
		return "param"
	case *ssa.MakeInterface:
		return "make:" + x.X.Type().String()
	}
	return "other"
}

// isFreshErr: the value is an error made on the spot (fmt.Errorf, errors.New)
// or a value boxed into the error interface.
func isFreshErr(v ssa.Value) bool {
	switch c := errClass(v); {
	case c == "call:fmt.Errorf", c == "call:errors.New", strings.HasPrefix(c, "make:"):
		return true
	}
	return false
}

// returnClassesFrom enumerates the paths from block b to a return and
// classifies result idx on each. limit bounds the enumeration.
func returnClassesFrom(b *ssa.BasicBlock, idx int, limit int) (classes map[string]bool, npaths int, ok bool) {
	classes = map[string]bool{}
	paths, ok := blockPaths(b, limit)
	if !ok {
		return classes, 0, false
	}
	for _, p := range paths {
		last := p[len(p)-1]
		r, isRet := last.Instrs[len(last.Instrs)-1].(*ssa.Return)
		if !isRet {
			classes["panic"] = true
			continue
		}
		for _, v := range retVals(r, idx) {
			for _, leaf := range resolveOnPath(v, p) {
				classes[errClass(leaf)] = true
			}
		}
	}
	return classes, len(paths), true
}

// returnClassesFromEdge is returnClassesFrom for the paths that begin with
// the edge from -> to.
func returnClassesFromEdge(from, to *ssa.BasicBlock, idx int, limit int) (classes map[string]bool, npaths int, ok bool) {
	classes = map[string]bool{}
	paths, ok := blockPathsE(from, to, limit)
	if !ok {
		return classes, 0, false
	}
	for _, p := range paths {
		last := p[len(p)-1]
		r, isRet := last.Instrs[len(last.Instrs)-1].(*ssa.Return)
		if !isRet {
			classes["panic"] = true
			continue
		}
		for _, v := range retVals(r, idx) {
			for _, leaf := range resolveOnPath(v, p) {
				classes[errClass(leaf)] = true
			}
		}
	}
	return classes, len(paths), true
}

func keys(m map[string]bool) []string {
	var out []string
	for k := range m {
		out = append(out, k)
	}
	sort.Strings(out)
	return out
}

// ordinal numbers the call sites of a callee inside a function in source
// order, producing position-independent construct keys.
func ordinal(f *ssa.Function, c ssa.CallInstruction) int {
	n := calleeName(c)
	k := 0
	for _, x := range calls(f) {
		if calleeName(x) == n {
			k++
			if x == c {
				return k
			}
		}
	}
	return 0
}

func site(f *ssa.Function, c ssa.CallInstruction) string {
	return fmt.Sprintf("%s: %s#%d", fnName(f), calleeName(c), ordinal(f, c))
}

// cmpHolds evaluates `x op y` for integers.
func cmpHolds(op token.Token, x, y int64) bool {
	switch op {
	case token.EQL:
		return x == y
	case token.NEQ:
		return x != y
	case token.LSS:
		return x < y
	case token.LEQ:
		return x <= y
	case token.GTR:
		return x > y
	case token.GEQ:
		return x >= y
	}
	return false
}

// constCmpAdmits: when edge ce tests `subject op const` (either operand
// order), reports whether the edge is taken for subject == n. relevant is
// false when the condition is not such a comparison.
func constCmpAdmits(ce ctrlEdge, subject func(ssa.Value) bool, n int64) (relevant, admits bool) {
	cond := ce.If.Cond
	taken := ce.Taken
	for {
		u, isU := cond.(*ssa.UnOp)
		if !isU || u.Op != token.NOT {
			break
		}
		cond, taken = u.X, !taken
	}
	ce.Taken = taken
	b, ok := cond.(*ssa.BinOp)
	if !ok {
		return false, false
	}
	var k int64
	var isK bool
	var holds bool
	switch {
	case subject(b.X):
		if k, isK = constInt(b.Y); isK {
			holds = cmpHolds(b.Op, n, k)
		}
	case subject(b.Y):
		if k, isK = constInt(b.X); isK {
			holds = cmpHolds(b.Op, k, n)
		}
	}
	if !isK {
		return false, false
	}
	return true, holds == ce.Taken
}

// contextFlagRules: a per-exchange flag of *martian.Context set by `setter`
// is what `getter` reports, and stays set: the getter reads a field the setter
// writes, and every other store to that field in the package (other setters
// sharing a packed word, helpers) is a read-modify-write of the same field,
// so that it cannot wipe the flag. Shared by C02.R5 (SkipRoundTrip), C13.R5
// (APIRequest) and C15.R4 (SkipLogging).
func contextFlagRules(r *Report, setter, getter string) {
	flagRules(r, "Context", setter, getter)
}

// flagWrite is a write of a receiver field: a Store, or an atomic
// Store/Swap/CompareAndSwap/Add through the field's address.
type flagWrite struct {
	at  ssa.Instruction
	fo  *types.Var
	val ssa.Value
	fn  *ssa.Function
}

func flagWrites(f *ssa.Function, recvOnly bool) []flagWrite {
	var out []flagWrite
	for _, in := range instrs(f) {
		switch x := in.(type) {
		case *ssa.Store:
			if fa, ok := x.Addr.(*ssa.FieldAddr); ok && (!recvOnly || (len(f.Params) > 0 && fa.X == ssa.Value(f.Params[0]))) {
				out = append(out, flagWrite{x, fieldObj(fa), x.Val, f})
			}
		case *ssa.Call:
			nm := calleeName(x)
			if !strings.HasPrefix(nm, "sync/atomic.") || len(x.Call.Args) < 2 {
				continue
			}
			fa, ok := x.Call.Args[0].(*ssa.FieldAddr)
			if !ok || (recvOnly && !(len(f.Params) > 0 && fa.X == ssa.Value(f.Params[0]))) {
				continue
			}
			switch {
			case strings.HasPrefix(nm, "sync/atomic.Store"), strings.HasPrefix(nm, "sync/atomic.Swap"), strings.HasPrefix(nm, "sync/atomic.Add"):
				out = append(out, flagWrite{x, fieldObj(fa), x.Call.Args[1], f})
			case strings.HasPrefix(nm, "sync/atomic.CompareAndSwap") && len(x.Call.Args) == 3:
				out = append(out, flagWrite{x, fieldObj(fa), x.Call.Args[2], f})
			}
		}
	}
	return out
}

func flagReads(f *ssa.Function) map[*types.Var]bool {
	out := map[*types.Var]bool{}
	for fo := range fieldsRead(f) {
		out[fo] = true
	}
	for _, c := range calls(f) {
		if strings.HasPrefix(calleeName(c), "sync/atomic.Load") && len(c.Common().Args) == 1 {
			if fa, ok := c.Common().Args[0].(*ssa.FieldAddr); ok && len(f.Params) > 0 && fa.X == ssa.Value(f.Params[0]) {
				out[fieldObj(fa)] = true
			}
		}
	}
	return out
}

// flagRules: a mark set by method `setter` of a module type is what `getter`
// reports, and stays set: the getter reads a field the setter writes, and
// every other write to that field in the package (other setters sharing a
// packed word, helpers) keeps the previous contents (read-modify-write), so
// that it cannot wipe the mark. Plain stores and sync/atomic writes alike.
func flagRules(r *Report, typ, setter, getter string, unsetters ...string) {
	w := r.W
	T := w.Named("", typ)
	if T == nil {
		r.Undecided("M."+typ, "UNRESOLVED")
		return
	}
	sf, gf := w.method(T, setter), w.method(T, getter)
	if sf == nil || gf == nil || sf.Blocks == nil || gf.Blocks == nil {
		r.Undecided("(*M."+typ+")."+setter+" / "+getter, "UNRESOLVED")
		return
	}
	r.Touch(sf)
	r.Touch(gf)
	read := flagReads(gf)
	shared := map[*types.Var]bool{}
	for _, fw := range flagWrites(sf, true) {
		if read[fw.fo] {
			shared[fw.fo] = true
		}
	}
	r.Decide("sibling", fmt.Sprintf("(*M.%s).%s is what (*M.%s).%s reports", typ, setter, typ, getter), len(shared) > 0, "the getter loads a field the setter stores", "the getter does not read what the setter writes: the mark is never seen", sf.Pos())
	// ... and nothing else: the getter's result is computed from fields of its receiver (and
	// constants), not from state of another object (a session value, a global) that outlives the
	// thing the mark was put on
	if len(shared) > 0 && len(gf.Params) > 0 {
		foreign := ""
		var leafOK func(v ssa.Value, depth int) bool
		leafOK = func(v ssa.Value, depth int) bool {
			if depth > 6 {
				return false
			}
			switch x := v.(type) {
			case *ssa.Const:
				return true
			case *ssa.UnOp:
				if x.Op == token.NOT {
					return leafOK(x.X, depth+1)
				}
				if x.Op == token.MUL {
					if fa, isFa := x.X.(*ssa.FieldAddr); isFa && isParamVal(fa.X, gf.Params[0]) {
						return true
					}
				}
			case *ssa.BinOp:
				return leafOK(x.X, depth+1) && leafOK(x.Y, depth+1)
			case *ssa.Call:
				if strings.HasPrefix(calleeName(x), "sync/atomic.Load") || strings.HasSuffix(calleeName(x), ".Load") {
					if fa, isFa := x.Call.Args[0].(*ssa.FieldAddr); isFa && isParamVal(fa.X, gf.Params[0]) {
						return true
					}
				}
			case *ssa.Phi:
				for _, e := range x.Edges {
					if !leafOK(e, depth+1) {
						return false
					}
				}
				return true
			case *ssa.Convert:
				return leafOK(x.X, depth+1)
			}
			return false
		}
		for _, ret := range returns(gf) {
			if len(ret.Results) == 0 {
				continue
			}
			for _, rv := range retVals(ret, 0) {
				for _, l := range resolveAll(rv) {
					if !leafOK(l, 0) {
						foreign = l.String()
					}
				}
			}
		}
		// when the mark is a bit of a shared word, the getter reports that bit whatever the other bits
		// are: evaluated for the word holding the bit alone, the bit with others, the others, nothing
		for _, fw := range flagWrites(sf, true) {
			if !shared[fw.fo] || fw.fn != sf {
				continue
			}
			b, isB := fw.val.(*ssa.BinOp)
			if !isB || b.Op != token.OR {
				continue
			}
			bit, isK := constInt(b.Y)
			if !isK {
				bit, isK = constInt(b.X)
			}
			if !isK || bit == 0 {
				continue
			}
			others := int64(7) &^ bit
			if others == 0 {
				others = bit << 1
			}
			okBit, evald := true, true
			for _, tc := range []struct {
				word int64
				want bool
			}{{bit, true}, {bit | others, true}, {others, false}, {0, false}} {
				ev := &miniEval{leaf: func(v ssa.Value) (int64, bool) {
					if ld, isLd := v.(*ssa.UnOp); isLd && ld.Op == token.MUL {
						if fa, isFa := ld.X.(*ssa.FieldAddr); isFa && fieldObj(fa) == fw.fo {
							return tc.word, true
						}
					}
					return 0, false
				}}
				for _, ret := range returns(gf) {
					if len(ret.Results) == 0 {
						continue
					}
					for _, rv := range retVals(ret, 0) {
						got, okE := ev.Bool(rv)
						if !okE {
							evald = false
						} else if got != tc.want {
							okBit = false
						}
					}
				}
			}
			if evald {
				r.Decide("table", fmt.Sprintf("(*M.%s).%s reports its bit whatever the other bits of the word are", typ, getter), okBit, "evaluated for the bit alone, with others, the others alone, and zero", "the getter compares the whole word instead of testing its bit: as soon as another mark is set on the same exchange (an API request that is also a Via loop, say) the mark reads as not set", gf.Pos())
			}
		}
		r.Decide("flow", fmt.Sprintf("(*M.%s).%s reports its receiver's own mark only", typ, getter), foreign == "", "every value returned is computed from fields of the receiver", "the getter also answers from something that is not a field of its receiver ("+foreign+"): a mark put on one exchange (or connection) is reported for others that never received it", gf.Pos())
	}
	isRMW := func(fw flagWrite) bool {
		if c, ok := fw.at.(*ssa.Call); ok && strings.HasPrefix(calleeName(c), "sync/atomic.Add") {
			return true
		}
		return anyIn(w.backSlice(fw.val, flowOpt{BinOps: true}), func(v ssa.Value) bool {
			switch x := v.(type) {
			case *ssa.UnOp:
				if x.Op == token.MUL {
					fa, ok := x.X.(*ssa.FieldAddr)
					return ok && fieldObj(fa) == fw.fo
				}
			case *ssa.Call:
				if strings.HasPrefix(calleeName(x), "sync/atomic.Load") && len(x.Call.Args) == 1 {
					fa, ok := x.Call.Args[0].(*ssa.FieldAddr)
					return ok && fieldObj(fa) == fw.fo
				}
			}
			return false
		})
	}
	for _, f := range w.Funcs("") {
		for _, fw := range flagWrites(f, false) {
			if !shared[fw.fo] {
				continue
			}
			if fa, ok := fw.at.(*ssa.Store); ok {
				if a, isFa := fa.Addr.(*ssa.FieldAddr); isFa && freshBase(a) {
					continue
				}
			}
			r.Touch(f)
			if f == sf {
				b, isB := constBool(fw.val)
				// an enumerated state: the setter stores the very constant the getter compares with
				enum := false
				if k, isK := fw.val.(*ssa.Const); isK && !isB && k.Value != nil {
					for _, gi := range instrs(gf) {
						b, ok := gi.(*ssa.BinOp)
						if !ok || b.Op != token.EQL {
							continue
						}
						for _, pr := range [][2]ssa.Value{{b.X, b.Y}, {b.Y, b.X}} {
							kc, isC := pr[1].(*ssa.Const)
							ld, isL := pr[0].(*ssa.UnOp)
							if !isC || !isL || kc.Value == nil || ld.Op != token.MUL {
								continue
							}
							if fa, isFa := ld.X.(*ssa.FieldAddr); isFa && fieldObj(fa) == fw.fo && constant.Compare(kc.Value, token.EQL, k.Value) {
								enum = true
							}
						}
					}
				}
				r.Decide("flow", fmt.Sprintf("(*M.%s).%s sets %s", typ, setter, fw.fo.Name()), (isB && b) || isRMW(fw) || enum, "stores true, adds its bit to the field, or stores the state constant the getter compares with", "the setter stores something else than true / its own bit / the getter's state", fw.at.Pos())
				// ... whenever it is called: no path through the setter avoids the write (a mark that an
				// earlier call can veto is not the mark the caller asked for)
				if fw.fn == sf && sf.Signature.Results().Len() == 0 {
					gs := G(sf)
					skip := gs.PathTo([]ssa.Instruction{gs.Entry()}, true, func(i ssa.Instruction) bool { return i == fw.at }, isReturn)
					r.Decide("path", fmt.Sprintf("(*M.%s).%s sets %s on every call", typ, setter, fw.fo.Name()), skip == nil, "the write lies on every path to the return", "the setter can return without writing the mark (a condition on earlier state): a later call does not set what the caller asked for - e.g. a session that was once marked insecure can never be marked secure again, and the requests that follow are handled in cleartext", fw.at.Pos())
				}
				continue
			}
			isUnsetter := false
			for _, u := range unsetters {
				if fnName(f) == u {
					isUnsetter = true
				}
			}
			if isUnsetter {
				continue
			}
			r.Decide("flow", fmt.Sprintf("%s does not wipe the mark set by %s", fnName(f), setter), isRMW(fw), "its write to "+fw.fo.Name()+" keeps the previous contents (read-modify-write)", fmt.Sprintf("%s overwrites %s, the field %s relies on, without keeping its previous contents: calling it after %s() silently clears the mark", fnName(f), fw.fo.Name(), getter, setter), fw.at.Pos())
		}
	}
}

// isParamVal: v is parameter p, also when p is captured by a closure and
// therefore lives in a cell (`t0 = new T (p); *t0 = p; ... *t0`): a load of the
// cell whose only store is the parameter itself.
func isParamVal(v ssa.Value, p *ssa.Parameter) bool {
	if v == ssa.Value(p) {
		return true
	}
	ld, ok := v.(*ssa.UnOp)
	if !ok || ld.Op != token.MUL {
		return false
	}
	a, ok := ld.X.(*ssa.Alloc)
	if !ok {
		return false
	}
	sts := storesTo(a)
	if len(sts) != 1 || sts[0].Val != ssa.Value(p) {
		return false
	}
	// stores from closures that captured the cell
	for _, f := range p.Parent().AnonFuncs {
		for _, in := range instrs(f) {
			if st, isSt := in.(*ssa.Store); isSt {
				if fv, isFV := st.Addr.(*ssa.FreeVar); isFV && resolveFree(fv) == ssa.Value(a) {
					return false
				}
			}
		}
	}
	return true
}

// lockPairRule: every lock taken in a function of the given packages is
// released on every path to every exit of that function (by an unlock on the
// path or by a deferred unlock registered before the exit). An early return
// added inside a critical section, or an unlock that only some branches reach,
// leaves the lock held: the next caller blocks for good. Functions whose
// contract is to return with a lock held are listed in lockWrappers.
var lockWrappers = map[string]string{}

func lockPairRule(r *Report, rels ...string) {
	n := 0
	for _, f := range r.W.Funcs(rels...) {
		hasLock := false
		for _, in := range instrs(f) {
			if c, ok := in.(*ssa.Call); ok {
				if op, isOp := lockOps[calleeName(c)]; isOp && op[0] == '+' {
					hasLock = true
				}
			}
		}
		if !hasLock {
			continue
		}
		if why, isW := lockWrappers[fnName(f)]; isW {
			r.Note("lock pairing: %s not judged (%s)", fnName(f), why)
			continue
		}
		r.Touch(f)
		n++
		may := lockStatesMay(f)
		g := G(f)
		// deferred unlocks by lock key
		type du struct {
			key string
			at  ssa.Instruction
		}
		var dus []du
		for _, in := range instrs(f) {
			d, ok := in.(*ssa.Defer)
			if !ok {
				continue
			}
			if op, isOp := lockOps[calleeName(d)]; isOp && op[0] == '-' {
				dus = append(dus, du{op[1:] + ":" + pathOf(d.Call.Args[0]), d})
			}
			// defer func() { mu.Unlock() }()
			if mc, isMC := d.Call.Value.(*ssa.MakeClosure); isMC {
				if fn, isFn := mc.Fn.(*ssa.Function); isFn {
					for _, in2 := range instrs(fn) {
						if c2, isC := in2.(*ssa.Call); isC {
							if op, isOp := lockOps[calleeName(c2)]; isOp && op[0] == '-' {
								if v := resolveFree(c2.Call.Args[0]); v != nil {
									dus = append(dus, du{op[1:] + ":" + pathOf(v), d})
								}
							}
						}
					}
				}
			}
		}
		bad := ""
		var pos token.Pos
		for _, in := range instrs(f) {
			var exit ssa.Instruction
			switch x := in.(type) {
			case *ssa.Return:
				exit = x
			case *ssa.Panic:
				if x.Pos().IsValid() {
					exit = x
				}
			}
			if exit == nil {
				continue
			}
			for key := range may[exit] {
				released := false
				for _, d := range dus {
					if d.key == key && (g.Before(d.at, exit) || g.PathTo([]ssa.Instruction{g.Entry()}, true, func(i ssa.Instruction) bool { return i == d.at }, func(i ssa.Instruction) bool { return i == exit }) == nil) {
						released = true
					}
				}
				if !released {
					bad = key
					pos = exit.Pos()
				}
			}
		}
		r.Decide("lockset", fnName(f)+": every lock it takes is released on every exit", bad == "", "no lock can still be held at a return (unlock on the path, or deferred before it)", fmt.Sprintf("lock %s may still be held when the function returns (an exit inside the critical section, or an unlock that not every branch reaches): the next user of the lock blocks for ever", bad), pos)
	}
	if n == 0 {
		r.Note("lock pairing: no function of %v takes a lock", rels)
	}
}

// infallibleWriters: writes into in-memory buffers whose error result is
// documented to be always nil.
var infallibleWriters = map[string]bool{
	"(*strings.Builder).WriteString": true, "(*strings.Builder).Write": true, "(*strings.Builder).WriteByte": true, "(*strings.Builder).WriteRune": true,
	"(*bytes.Buffer).WriteString": true, "(*bytes.Buffer).Write": true, "(*bytes.Buffer).WriteByte": true, "(*bytes.Buffer).WriteRune": true,
}

// concatOperands flattens a string built by `+` and fmt.Sprintf into its
// operands in left-to-right order (Sprintf contributes its arguments in order).
func concatOperands(v ssa.Value) []ssa.Value {
	switch x := v.(type) {
	case *ssa.BinOp:
		if x.Op == token.ADD {
			return append(concatOperands(x.X), concatOperands(x.Y)...)
		}
	case *ssa.Call:
		if calleeName(x) == "fmt.Sprintf" && len(x.Call.Args) == 2 {
			if sl, ok := x.Call.Args[1].(*ssa.Slice); ok {
				if arr, ok := sl.X.(*ssa.Alloc); ok && arr.Referrers() != nil {
					type el struct {
						idx int64
						v   ssa.Value
					}
					var els []el
					for _, u := range *arr.Referrers() {
						ia, ok := u.(*ssa.IndexAddr)
						if !ok || ia.Referrers() == nil {
							continue
						}
						k, _ := constInt(ia.Index)
						for _, uu := range *ia.Referrers() {
							if st, ok := uu.(*ssa.Store); ok && st.Addr == ssa.Value(ia) {
								val := st.Val
								if mi, isMI := val.(*ssa.MakeInterface); isMI {
									val = mi.X
								}
								els = append(els, el{k, val})
							}
						}
					}
					sort.Slice(els, func(i, j int) bool { return els[i].idx < els[j].idx })
					var out []ssa.Value
					for _, e := range els {
						out = append(out, concatOperands(e.v)...)
					}
					return out
				}
			}
		}
	}
	return []ssa.Value{v}
}

// goCaptureRule: a goroutine started from a function literal must not capture
// (by reference) a variable that its creator assigns again after the `go`
// statement can have run - the classic loop-variable capture: under the
// module's language version (go 1.18 in go.mod: one variable per loop, not per
// iteration) every goroutine then reads whatever the variable holds when it
// gets to run, not the value of its own iteration.
func goCaptureRule(r *Report, rels ...string) {
	n := 0
	for _, f := range r.W.Funcs(rels...) {
		g := G(f)
		for _, in := range instrs(f) {
			gs, ok := in.(*ssa.Go)
			if !ok {
				continue
			}
			mc, ok := gs.Call.Value.(*ssa.MakeClosure)
			if !ok {
				continue
			}
			n++
			r.Touch(f)
			bad := ""
			var pos token.Pos
			for k, b := range mc.Bindings {
				a, isA := b.(*ssa.Alloc)
				if !isA {
					continue
				}
				for _, st := range storesTo(a) {
					if st.Parent() != f {
						continue
					}
					if p := g.PathTo([]ssa.Instruction{gs}, false, nil, func(i ssa.Instruction) bool { return i == ssa.Instruction(st) }); p != nil {
						name := a.Comment
						if fn, isFn := mc.Fn.(*ssa.Function); isFn && k < len(fn.FreeVars) {
							name = fn.FreeVars[k].Name()
						}
						bad = name
						pos = st.Pos()
					}
				}
			}
			r.Decide("flow", fmt.Sprintf("%s: goroutine literal #%d captures nothing its creator assigns afterwards", fnName(f), ordinalGo(f, gs)), bad == "", "every variable shared with the goroutine keeps its value once the goroutine exists", fmt.Sprintf("the goroutine captures %q, which the creating function assigns again after the go statement (the next loop iteration): goroutines read each other's values (frames delivered to the wrong subscriber, or several times)", bad), pos)
		}
	}
	if n == 0 {
		r.Note("goroutine capture: no goroutine literal in %v", rels)
	}
}

func ordinalGo(f *ssa.Function, g *ssa.Go) int {
	n := 0
	for _, in := range instrs(f) {
		if x, ok := in.(*ssa.Go); ok {
			n++
			if x == g {
				return n
			}
		}
	}
	return 0
}

// lastIndexRule: an index expression of the form x[len(x)-k] (the "last
// element" idiom) on a string or slice panics when x is shorter than k; with no
// recover around the connection goroutine (or the TLS handshake callbacks) that
// ends the process. Every such index must be dominated by a test that excludes
// the short lengths: a comparison of len(x) with a constant, x != "" / x == ""
// on the other edge, or a range/loop bound that implies it.
func lastIndexRule(r *Report, rels ...string) {
	n := 0
	for _, f := range r.W.Funcs(rels...) {
		for _, in := range instrs(f) {
			var base, idx ssa.Value
			switch x := in.(type) {
			case *ssa.Lookup:
				if _, isMap := x.X.Type().Underlying().(*types.Map); isMap {
					continue
				}
				base, idx = x.X, x.Index
			case *ssa.IndexAddr:
				base, idx = x.X, x.Index
			case *ssa.Index:
				base, idx = x.X, x.Index
			case *ssa.Slice:
				// x[:len(x)-k] (dropping a trailing separator): the same obligation for the upper bound
				if x.High == nil {
					continue
				}
				base, idx = x.X, x.High
				if hb, isB := idx.(*ssa.BinOp); !isB || hb.Op != token.SUB {
					continue
				}
			default:
				continue
			}
			sub, ok := idx.(*ssa.BinOp)
			if !ok || (sub.Op != token.SUB && sub.Op != token.ADD) {
				continue
			}
			k, isK := constInt(sub.Y)
			lc, isC := sub.X.(*ssa.Call)
			if !isK || !isC {
				continue
			}
			if sub.Op == token.ADD || k < 1 {
				// x[len(x)+k], x[len(x)-0]: at or past the end whatever the length
				if bi, isB := lc.Call.Value.(*ssa.Builtin); isB && bi.Name() == "len" && (lc.Call.Args[0] == base || pathOf(lc.Call.Args[0]) == pathOf(base)) {
					n++
					r.Touch(f)
					r.Fail("path", fmt.Sprintf("%s: index len(x)%s%d #%d lies at or past the end", fnName(f), sub.Op, k, n), "x[len(x)+k] / x[len(x)-0] is out of range for every x: the panic, which nothing recovers, ends the proxy process as soon as the statement runs", nil, in.Pos())
				}
				continue
			}
			bi, isB := lc.Call.Value.(*ssa.Builtin)
			if !isB || bi.Name() != "len" {
				continue
			}
			same := func(a, b ssa.Value) bool {
				return a == b || (pathOf(a) != "" && pathOf(a) == pathOf(b))
			}
			if !same(lc.Call.Args[0], base) {
				continue
			}
			n++
			r.Touch(f)
			isLen := func(v ssa.Value) bool {
				c, y := v.(*ssa.Call)
				if !y {
					return false
				}
				b, y := c.Call.Value.(*ssa.Builtin)
				return y && b.Name() == "len" && same(c.Call.Args[0], base)
			}
			guarded := false
			// strings.Split returns at least one element
			if k == 1 {
				for _, l := range resolveAll(base) {
					if isCallValue(l, "strings.Split", "strings.SplitAfter", "bytes.Split") {
						guarded = true
					} else {
						guarded = false
						break
					}
				}
			}
			for _, ce := range ctrlEdges(in.Block()) {
				// len(x) op const: must not admit any length below k
				rel := false
				admitsShort := false
				for short := int64(0); short < k; short++ {
					if rl, adm := constCmpAdmits(ce, isLen, short); rl {
						rel = true
						if adm {
							admitsShort = true
						}
					}
				}
				if rel && !admitsShort {
					guarded = true
				}
				// x != "" (k == 1)
				if b, y := ce.If.Cond.(*ssa.BinOp); y && k == 1 && (b.Op == token.EQL || b.Op == token.NEQ) {
					s1, c1 := constString(b.X)
					s2, c2 := constString(b.Y)
					other := b.X
					if c1 && s1 == "" {
						other = b.Y
					} else if !(c2 && s2 == "") {
						continue
					}
					if same(other, base) && (b.Op == token.NEQ) == ce.Taken {
						guarded = true
					}
				}
			}
			r.Decide("path", fmt.Sprintf("%s: index len(x)-%d #%d is guarded against short x", fnName(f), k, n), guarded, "dominated by a test that excludes lengths below the offset", fmt.Sprintf("x[len(x)-%d] is evaluated without a dominating test that x is long enough: for an empty (short) x the index is out of range and the panic, which nothing recovers, ends the proxy process", k), in.Pos())
		}
	}
	if n == 0 {
		r.Hold("path", fmt.Sprintf("last-element indexing in %v", rels), "no x[len(x)-k] expression")
	}
}

// fieldWritersRule: who may write a struct field. Every store to the field
// (outside a freshly allocated struct) sits in one of the allowed functions.
func fieldWritersRule(r *Report, rel, typ, field string, allowed map[string]bool, why string) {
	n := r.W.Named(rel, typ)
	if n == nil {
		r.Undecided(short(P(rel))+"."+typ, "UNRESOLVED")
		return
	}
	fo := structField(n, field)
	if fo == nil {
		r.Undecided(short(P(rel))+"."+typ+"."+field, "UNRESOLVED")
		return
	}
	cnt := 0
	for _, st := range r.W.fieldStores(fo) {
		fa := st.Addr.(*ssa.FieldAddr)
		if freshBase(fa) {
			continue
		}
		cnt++
		fn := fnName(st.Parent())
		r.Touch(st.Parent())
		r.Decide("callgraph", fmt.Sprintf("writer of %s.%s.%s: %s", short(P(rel)), typ, field, fn), allowed[fn], "one of the functions that own the field", fmt.Sprintf("%s writes %s.%s: %s", fn, typ, field, why), st.Pos())
	}
	// atomic stores / swaps through the field's address
	for _, f := range r.W.Funcs(rel) {
		for _, c := range calls(f) {
			nm := calleeName(c)
			if !(strings.HasPrefix(nm, "sync/atomic.Store") || strings.HasPrefix(nm, "sync/atomic.Swap") || strings.HasPrefix(nm, "sync/atomic.CompareAndSwap") || strings.HasPrefix(nm, "sync/atomic.Add")) {
				continue
			}
			if fa, ok := c.Common().Args[0].(*ssa.FieldAddr); ok && fieldObj(fa) == fo {
				cnt++
				r.Decide("callgraph", fmt.Sprintf("writer of %s.%s.%s: %s", short(P(rel)), typ, field, fnName(f)), allowed[fnName(f)], "one of the functions that own the field", fmt.Sprintf("%s writes %s.%s: %s", fnName(f), typ, field, why), c.Pos())
			}
		}
	}
	if cnt == 0 {
		r.Hold("callgraph", fmt.Sprintf("writers of %s.%s.%s", short(P(rel)), typ, field), "written only where the struct is built")
	}
}

// statelessRule: the function (and the module functions it calls statically)
// keeps nothing between calls: it refers to no package-level variable of the
// module except the ones listed (read-only tables).
func statelessRule(r *Report, f *ssa.Function, allowedGlobals map[string]bool, why string) {
	if f == nil {
		return
	}
	bad := ""
	var pos token.Pos
	for _, g := range r.W.staticReach(f) {
		r.Touch(g)
		for _, in := range instrs(g) {
			var ops []*ssa.Value
			for _, op := range in.Operands(ops) {
				gl, ok := (*op).(*ssa.Global)
				if !ok || gl.Pkg == nil || !strings.HasPrefix(gl.Pkg.Pkg.Path(), M) {
					continue
				}
				if allowedGlobals[gl.Name()] || strings.HasSuffix(gl.Pkg.Pkg.Path(), "/log") {
					continue
				}
				// loads of sentinel errors and regexps compiled once are not state
				if ld, isLd := in.(*ssa.UnOp); isLd && ld.Op == token.MUL && sentinelGlobal(gl) {
					continue
				}
				// a variable nothing ever assigns (a debugging hook left nil, a constant-like
				// scalar) cannot carry anything from one message to the next
				if ld, isLd := in.(*ssa.UnOp); isLd && ld.Op == token.MUL && r.W.neverAssigned(gl) {
					continue
				}
				bad = gl.Name()
				pos = in.Pos()
			}
		}
	}
	r.Decide("callgraph", fnName(f)+" keeps no state between messages", bad == "", "no package-level variable is used besides read-only tables", fmt.Sprintf("the function uses the package-level variable %q: %s", bad, why), pos)
}

// errorsReturnedRule: in f, the error of each callee listed for f in
// propagatedErrors reaches f's own error result (directly, through a variable,
// or wrapped by fmt.Errorf): a failure that is reported to the caller on the
// pinned tree is not logged and forgotten. With exact, no other callee's error
// may reach the result either (a logger must not find new ways to fail the
// exchange). ioutil.ReadAll and io.ReadAll are one callee.
func errorsReturnedRule(r *Report, f *ssa.Function, exact bool) {
	if f == nil {
		return
	}
	res := f.Signature.Results()
	if res.Len() == 0 || !isErrorType(res.At(res.Len()-1).Type()) {
		return
	}
	w := r.W
	norm := func(n string) string {
		switch n {
		case "io.ReadAll":
			return "io/ioutil.ReadAll"
		case "io.NopCloser":
			return "io/ioutil.NopCloser"
		}
		return n
	}
	want := map[string]bool{}
	for _, c := range propagatedErrors[fnName(f)] {
		want[c] = true
	}
	returned := map[ssa.Value]bool{}
	for _, ret := range returns(f) {
		for _, v := range retVals(ret, res.Len()-1) {
			for x := range w.backSlice(v, errWrapFlow) {
				returned[x] = true
			}
		}
	}
	seen := map[string]bool{}
	for _, in := range instrs(f) {
		c, ok := in.(*ssa.Call)
		if !ok {
			continue
		}
		cr := c.Call.Signature().Results()
		if cr.Len() == 0 || !isErrorType(cr.At(cr.Len()-1).Type()) {
			continue
		}
		nm := norm(nameOrDyn(c))
		if nm == "dynamic call" {
			// a function kept in a struct field (p.dial, a callback) is named by the field
			if ld, isLd := c.Call.Value.(*ssa.UnOp); isLd && ld.Op == token.MUL {
				if fa, isFa := ld.X.(*ssa.FieldAddr); isFa {
					nm = "field " + namedOf(fa.X.Type()) + "." + fieldObj(fa).Name()
				}
			}
		}
		if nm == "fmt.Errorf" || nm == "errors.New" {
			continue
		}
		reaches := false
		for _, e := range errOf(c) {
			if returned[e] {
				reaches = true
			}
		}
		if reaches && os.Getenv("VERIF_DUMP_ERRTABLE") != "" && nm != "dynamic call" {
			fmt.Fprintf(os.Stderr, "ERRTABLE %s|%s\n", fnName(f), nm)
		}
		if want[nm] && reaches {
			// polarity: when the error is tested, the failure edge leaves with an error on every
			// path (an inverted test returns early on success and carries on after a failure)
			if tests := errTests(c); len(tests) > 0 {
				okPol := true
				for _, t := range tests {
					// a failure edge that classifies the error further (err != io.EOF ...) is not judged
					if iff, isIf := t.NonNil.Instrs[len(t.NonNil.Instrs)-1].(*ssa.If); isIf {
						classify := false
						for _, e := range errOf(c) {
							if anyIn(w.backSlice(iff.Cond, flowOpt{BinOps: true}), func(v ssa.Value) bool { return v == e }) {
								classify = true
							}
						}
						if classify {
							continue
						}
					}
					paths, okp := blockPathsE(t.If.Block(), t.NonNil, 4000)
					if !okp {
						continue
					}
					nret := 0
					for _, p := range paths {
						last := p[len(p)-1]
						ret, isRet := last.Instrs[len(last.Instrs)-1].(*ssa.Return)
						if !isRet {
							continue
						}
						nret++
						for _, v := range retVals(ret, res.Len()-1) {
							// returning the very value whose non-nil edge this is (a result variable that
							// merges several failures) is returning an error
							if bin, isBin := t.If.Cond.(*ssa.BinOp); isBin && (bin.X == v || bin.Y == v) {
								continue
							}
							tested := func(x ssa.Value) bool {
								bin, isBin := t.If.Cond.(*ssa.BinOp)
								return isBin && (bin.X == x || bin.Y == x)
							}
							for _, l := range resolveOnPathUntil(v, p, tested) {
								// what leaves on the failure edge is this error, a wrapping of it, or a
								// fresh error: not nil, and not the outcome of a later step
								isE := tested(l) // the merge whose non-nil edge this is, handed on through further merges
								for _, e := range errOf(c) {
									if l == e || anyIn(w.backSlice(l, errWrapFlow), func(x ssa.Value) bool { return x == e }) {
										isE = true
									}
								}
								if !isE && !isFreshErr(l) {
									okPol = false
									if os.Getenv("VERIF_DEBUG") != "" {
										fmt.Fprintf(os.Stderr, "POLARITY %s %s: path returns %s (%T) via %v\n", fnName(f), nm, l, l, p)
									}
								}
							}
						}
					}
					if nret == 0 {
						okPol = false
					}
				}
				r.Decide("path", fmt.Sprintf("%s: a failure of %s#%d leaves the function with an error", fnName(f), nm, ordinalAny(f, c)), okPol, "every path from the failure edge returns a non-nil error", "a path from the failure edge of this call returns nil (the test is inverted, or the failure is retried / ignored on some path): the function carries on with a result that does not exist", c.Pos())
			}
		}
		if want[nm] {
			seen[nm] = true
			r.Decide("flow", fmt.Sprintf("%s: error of %s#%d reaches the function's result", fnName(f), nm, ordinalAny(f, c)), reaches, "the error value flows into a return", "the error is dropped (logged at most): the caller carries on as if the step had succeeded", c.Pos())
		} else if exact && reaches && newHelperWithin(w, c, want, norm, seen, 0) {
			// a helper that is not part of the pinned tree and can only fail where the function itself
			// was allowed to fail: the failures are the same, one level down
		} else if exact && reaches {
			r.Fail("flow", fmt.Sprintf("%s: error of %s#%d is not among the failures the function reports", fnName(f), nm, ordinalAny(f, c)), "the function now fails on an error it used to tolerate: its caller (the proxy) turns that into a Warning header or an aborted step for traffic that passed before", nil, c.Pos())
		}
	}
	for nm := range want {
		if !seen[nm] {
			r.Note("%s: no call of %s any more (its error used to be propagated)", fnName(f), nm)
		}
	}
}

// nilableFields are standard-library struct fields documented as nil in
// ordinary operation (not only on misuse): dereferencing one without a test is
// a nil-pointer panic on an input-dependent path.
var nilableFields = map[string]string{
	"net.OpError.Addr":               "nil for operations with no remote address (Accept, a failed Dial before resolution, a closed connection)",
	"net.OpError.Source":             "nil unless the operation had a local address",
	"net/http.Request.TLS":           "nil for requests that arrived in cleartext",
	"net/http.Response.TLS":          "nil for responses received in cleartext",
	"net/url.URL.User":               "nil when the URL carries no userinfo",
	"net/http.Request.MultipartForm": "nil until ParseMultipartForm has been called",
}

// nilSafeMethods tolerate a nil receiver.
var nilSafeMethods = map[string]bool{
	"(*net/url.Userinfo).Username": true,
	"(*net/url.Userinfo).Password": true,
	"(*net/url.Userinfo).String":   true,
}

// nilableFieldRule: every dereference (method call, field access, load) of a
// value read from a nilable standard-library field is dominated by a non-nil
// test of that same access path.
func nilableFieldRule(r *Report, rels ...string) {
	n := 0
	for _, f := range r.W.Funcs(rels...) {
		for _, in := range instrs(f) {
			var fo *types.Var
			var val ssa.Value
			switch x := in.(type) {
			case *ssa.UnOp:
				fa, ok := x.X.(*ssa.FieldAddr)
				if x.Op != token.MUL || !ok {
					continue
				}
				fo, val = fieldObj(fa), x
			case *ssa.Field:
				fo, val = fieldObjV(x), x
			default:
				continue
			}
			if fo == nil || fo.Pkg() == nil {
				continue
			}
			owner := ""
			switch x := in.(type) {
			case *ssa.UnOp:
				owner = namedOf(x.X.(*ssa.FieldAddr).X.Type())
			case *ssa.Field:
				owner = namedOf(x.X.Type())
			}
			key := fo.Pkg().Path() + "." + owner + "." + fo.Name()
			why, isNilable := nilableFields[key]
			if !isNilable || val.Referrers() == nil {
				continue
			}
			path := pathOf(val)
			for _, u := range *val.Referrers() {
				deref := false
				switch y := u.(type) {
				case ssa.CallInstruction:
					c := y.Common()
					if c.IsInvoke() && c.Value == val {
						deref = true
					} else if !c.IsInvoke() && len(c.Args) > 0 && c.Args[0] == val {
						if sc := c.StaticCallee(); sc != nil && sc.Signature.Recv() != nil && !nilSafeMethods[sc.String()] {
							deref = true
						}
					}
				case *ssa.FieldAddr:
					deref = y.X == val
				case *ssa.UnOp:
					deref = y.Op == token.MUL && y.X == val
				}
				if !deref {
					continue
				}
				n++
				r.Touch(f)
				guarded := false
				for _, ce := range ctrlEdges(u.Block()) {
					b, ok := ce.If.Cond.(*ssa.BinOp)
					if !ok || (b.Op != token.EQL && b.Op != token.NEQ) {
						continue
					}
					other := b.X
					if isNilConst(b.X) {
						other = b.Y
					} else if !isNilConst(b.Y) {
						continue
					}
					if (other == val || pathOf(other) == path) && (b.Op == token.NEQ) == ce.Taken {
						guarded = true
					}
				}
				r.Decide("path", fmt.Sprintf("%s: dereference of %s #%d is guarded by a nil test", fnName(f), path, n), guarded, "dominated by a non-nil test of the same access path", fmt.Sprintf("%s is dereferenced without a dominating nil test; the field is %s, and the nil-pointer panic, which nothing recovers, ends the proxy process", key, why), u.Pos())
			}
		}
	}
	if n == 0 {
		r.Hold("path", fmt.Sprintf("dereferences of nilable standard-library fields in %v", rels), "none")
	}
}

func namedOf(t types.Type) string {
	if p, ok := t.Underlying().(*types.Pointer); ok {
		t = p.Elem()
	}
	if p, ok := t.(*types.Pointer); ok {
		t = p.Elem()
	}
	if nm, ok := t.(*types.Named); ok {
		return nm.Obj().Name()
	}
	return ""
}

// goBlockRule: a goroutine literal never parks forever on a channel operation
// that nobody is obliged to complete. Inside every `go func(){...}` literal of
// the given packages, each channel operation outside a select is classified by
// the channel's origin (backward slice, through captures and fields):
//   - a bare send is fine when every origin is make(chan T, n) with constant n>=1
//     and the literal sends at most once per run (not in a loop), or the channel
//     is received from unconditionally by the creator's join;
//   - a bare receive is fine when some close() of the same origin exists, or
//     the origin is a timer/context channel.
//
// Anything else has no party obliged to complete it once the creator returned:
// the goroutine outlives the session.
func goBlockRule(r *Report, rels ...string) {
	w := r.W
	n := 0
	// closed origins in the module
	closedField := map[*types.Var]bool{}
	closedMake := map[ssa.Value]bool{}
	for _, f := range w.Funcs() {
		for _, c := range calls(f, "builtin.close") {
			for v := range w.backSlice(c.Common().Args[0], flowOpt{Fields: true}) {
				switch x := v.(type) {
				case *ssa.MakeChan:
					closedMake[x] = true
				case *ssa.FieldAddr:
					closedField[fieldObj(x)] = true
				case *ssa.Field:
					closedField[fieldObjV(x)] = true
				}
			}
		}
	}
	// bare sends per channel origin, over all goroutines: a buffer absorbs as many sends as it has
	// slots, not one per sender
	sendsPer := map[*ssa.MakeChan]int{}
	for _, f := range w.Funcs(rels...) {
		for _, in := range instrs(f) {
			gs, ok := in.(*ssa.Go)
			if !ok {
				continue
			}
			fn := goTarget(gs)
			if fn == nil || fn.Blocks == nil {
				continue
			}
			for _, gi := range instrs(fn) {
				if sd, isSd := gi.(*ssa.Send); isSd {
					for v := range w.backSlice(sd.Chan, flowOpt{Fields: true, Params: true}) {
						if mk, isMk := v.(*ssa.MakeChan); isMk {
							sendsPer[mk]++
						}
					}
				}
			}
		}
	}
	for _, f := range w.Funcs(rels...) {
		for _, in := range instrs(f) {
			gs, ok := in.(*ssa.Go)
			if !ok {
				continue
			}
			fn := goTarget(gs)
			if fn == nil || fn.Blocks == nil || !strings.HasPrefix(fn.Pkg.Pkg.Path(), M) {
				continue
			}
			for _, gi := range instrs(fn) {
				var ch ssa.Value
				kind := ""
				switch x := gi.(type) {
				case *ssa.Send:
					ch, kind = x.Chan, "send"
				case *ssa.UnOp:
					if x.Op == token.ARROW {
						ch, kind = x.X, "receive"
					}
				}
				if ch == nil {
					continue
				}
				n++
				r.Touch(f)
				okOp, origins, unknown := true, 0, false
				for v := range w.backSlice(ch, flowOpt{Fields: true, Params: true}) {
					switch x := v.(type) {
					case *ssa.MakeChan:
						origins++
						sz, isK := constInt(x.Size)
						if kind == "send" {
							if !(isK && sz >= 1 && int64(sendsPer[x]) <= sz && (!inLoop(gi.Block()) || latchedOnce(gi))) && !joined(f, gs, x) {
								okOp = false
							}
						} else if !closedMake[x] {
							okOp = false
						}
					case *ssa.FieldAddr:
						if _, isCh := fieldObj(x).Type().Underlying().(*types.Chan); isCh && kind == "receive" && closedField[fieldObj(x)] {
							origins++
						}
					case *ssa.Parameter:
						if _, isCh := x.Type().Underlying().(*types.Chan); isCh && x.Parent() != fn {
							unknown = true
						}
					case *ssa.Call:
						if isCallValue(x, "time.After", "(context.Context).Done", "time.Tick") {
							origins++
						}
					}
				}
				if origins == 0 && unknown {
					r.Hold("flow", fmt.Sprintf("%s: goroutine literal #%d: bare %s #%d", fnName(f), ordinalGo(f, gs), kind, n), "the channel is a parameter of the creating function: its completion is the caller's contract")
					continue
				}
				r.Decide("flow", fmt.Sprintf("%s: goroutine literal #%d: bare %s #%d cannot park forever", fnName(f), ordinalGo(f, gs), kind, n), okOp && origins > 0, "the channel has a slot for every send made on it / is joined by the creator / is closed by its owner", fmt.Sprintf("the goroutine %ss outside a select on a channel that nothing is obliged to complete once the creating function has returned (unbuffered or looped send with no join, more senders than buffer slots, or a receive from a channel nobody closes): the goroutine stays blocked after the session ends", kind), gi.Pos())
			}
		}
	}
	if n == 0 {
		r.Note("goroutine blocking: no bare channel operation inside a goroutine literal in %v", rels)
	}
}

// joined: the creating function receives from the channel made by mk, outside
// a select, on every path from the go statement to its returns.
func joined(f *ssa.Function, gs *ssa.Go, mk *ssa.MakeChan) bool {
	if mk.Parent() != f {
		return false
	}
	g := G(f)
	isJoin := func(i ssa.Instruction) bool {
		u, ok := i.(*ssa.UnOp)
		if !ok || u.Op != token.ARROW {
			return false
		}
		for _, v := range resolveAll(u.X) {
			if v == ssa.Value(mk) {
				return true
			}
		}
		return false
	}
	return g.PathTo([]ssa.Instruction{gs}, false, isJoin, isExit) == nil
}

// latchedOnce: the instruction sits in a loop but can execute at most once,
// because it is guarded by `latch == nil` and `v != nil` where latch is a loop
// variable whose only values are nil (initially), itself, and v: once v has
// been non-nil the guard never holds again (the first-error latch idiom).
func latchedOnce(in ssa.Instruction) bool {
	var latch *ssa.Phi
	var nonNil []ssa.Value
	for _, ce := range ctrlEdges(in.Block()) {
		b, ok := ce.If.Cond.(*ssa.BinOp)
		if !ok || (b.Op != token.EQL && b.Op != token.NEQ) {
			continue
		}
		other := b.X
		if isNilConst(b.X) {
			other = b.Y
		} else if !isNilConst(b.Y) {
			continue
		}
		isNil := (b.Op == token.EQL) == ce.Taken
		if ph, isPhi := other.(*ssa.Phi); isPhi && isNil {
			latch = ph
		} else if !isNil {
			nonNil = append(nonNil, other)
		}
	}
	if latch == nil || len(nonNil) == 0 {
		return false
	}
	for _, v := range nonNil {
		seen := map[*ssa.Phi]bool{}
		var only func(x ssa.Value) bool
		only = func(x ssa.Value) bool {
			if x == v || isNilConst(x) {
				return true
			}
			ph, ok := x.(*ssa.Phi)
			if !ok {
				return false
			}
			if seen[ph] {
				return true
			}
			seen[ph] = true
			for _, e := range ph.Edges {
				if !only(e) {
					return false
				}
			}
			return true
		}
		// the initial value must be nil and v must be one of the edges
		if only(latch) {
			return true
		}
	}
	return false
}

// goTarget is the function a go statement starts: a literal (with or without
// captured variables) or a named function.
func goTarget(gs *ssa.Go) *ssa.Function {
	switch x := gs.Call.Value.(type) {
	case *ssa.MakeClosure:
		return x.Fn.(*ssa.Function)
	case *ssa.Function:
		return x
	}
	return gs.Call.StaticCallee()
}

// neverAssigned: the package-level variable is of a value or function type
// (nothing reachable through it can be mutated) and no function of the module
// other than the package initialiser stores to it or takes its address.
func (w *World) neverAssigned(g *ssa.Global) bool {
	switch g.Type().(*types.Pointer).Elem().Underlying().(type) {
	case *types.Basic, *types.Signature:
	default:
		return false
	}
	for _, f := range w.Funcs() {
		for _, in := range instrs(f) {
			var ops []*ssa.Value
			for _, op := range in.Operands(ops) {
				if *op != ssa.Value(g) {
					continue
				}
				if ld, ok := in.(*ssa.UnOp); ok && ld.Op == token.MUL {
					continue
				}
				if f.Name() == "init" && f.Signature.Recv() == nil {
					continue
				}
				return false
			}
		}
	}
	return true
}

// setterStoresRule: the public setter `method` of the module type stores its
// (first) argument in `field` of its receiver: directly, after defaulting
// (a phi with the parameter as one input), or wrapped in a closure that
// captures it. A setter that drops its argument leaves the default in force
// whatever the user configures.
func setterStoresRule(r *Report, rel, typ, method, field, consequence string) {
	w := r.W
	T := w.Named(rel, typ)
	key := "(*M" + map[bool]string{true: "", false: "/" + rel}[rel == ""] + "." + typ + ")." + method
	if T == nil {
		r.Undecided(key, "UNRESOLVED")
		return
	}
	fn := w.method(T, method)
	if fn == nil || fn.Blocks == nil || len(fn.Params) < 2 {
		r.Undecided(key, "UNRESOLVED")
		return
	}
	r.Touch(fn)
	isArg := func(v ssa.Value) bool {
		if isParamVal(v, fn.Params[1]) {
			return true
		}
		if a, ok := v.(*ssa.Alloc); ok {
			for _, st := range storesTo(a) {
				if st.Val == ssa.Value(fn.Params[1]) {
					return true
				}
			}
		}
		return false
	}
	ok := false
	for fo, sts := range fieldsWritten(fn) {
		if fo.Name() != field {
			continue
		}
		for _, st := range sts {
			sl := w.backSlice(st.Val, flowOpt{})
			if anyIn(sl, isArg) {
				ok = true
			}
			for v := range sl {
				if mc, isMC := v.(*ssa.MakeClosure); isMC {
					for _, b := range mc.Bindings {
						if isArg(b) {
							ok = true
						}
					}
				}
			}
		}
	}
	r.Decide("flow", key+" stores its argument in "+field, ok, "the parameter reaches the field", "the setter does not store its argument in "+field+": "+consequence, fn.Pos())
	// ... for every argument: a result-less setter has no path that leaves the field as it was (an
	// "ignored when empty" clause keeps the previous value where the caller configured a new one)
	if ok && fn.Signature.Results().Len() == 0 {
		g := G(fn)
		isStore := func(i ssa.Instruction) bool {
			st, isSt := i.(*ssa.Store)
			if !isSt {
				return false
			}
			fa, isFa := st.Addr.(*ssa.FieldAddr)
			return isFa && fieldObj(fa).Name() == field
		}
		skip := g.PathTo([]ssa.Instruction{g.Entry()}, true, isStore, isReturn)
		r.Decide("path", key+" stores "+field+" on every call", skip == nil, "the store lies on every path to the return", "the setter can return without storing (a special case for an empty or zero argument): what was configured before stays in force although the caller configured something else: "+consequence, fn.Pos())
	}
}

// guardedFieldsRule: the named fields of a module struct are read with the
// struct's mutex held (read or write lock) and written with its write lock
// held, in every function of the module, outside freshly allocated values.
// (Lock pairing alone does not see a `defer mu.Unlock()` turned into an
// immediate Unlock: the lock is released on every exit, and protects nothing.)
func guardedFieldsRule(r *Report, rel, typ, mutex string, fields []string, why string) {
	w := r.W
	T := w.Named(rel, typ)
	if T == nil {
		r.Undecided("M."+typ, "UNRESOLVED")
		return
	}
	st := map[*ssa.Function]map[ssa.Instruction]lockset{}
	if fields == nil {
		// every field that can change after construction: stored to outside a fresh
		// value, or a map / slice (changed through the loaded reference)
		sT := T.Underlying().(*types.Struct)
		for i := 0; i < sT.NumFields(); i++ {
			fo := sT.Field(i)
			if fo.Name() == mutex || strings.HasPrefix(fo.Type().String(), "sync.") {
				continue
			}
			mutable := false
			switch fo.Type().Underlying().(type) {
			case *types.Map, *types.Slice:
				mutable = true
			}
			for _, stv := range w.fieldStores(fo) {
				if fa, ok := stv.Addr.(*ssa.FieldAddr); ok && !freshBase(fa) {
					mutable = true
				}
			}
			if mutable {
				fields = append(fields, fo.Name())
			}
		}
		if len(fields) == 0 {
			r.Undecided("M."+typ, "UNRESOLVED: no mutable field")
		}
	}
	for _, fname := range fields {
		fo := structField(T, fname)
		if fo == nil {
			r.Undecided(fmt.Sprintf("%s.%s", typ, fname), "UNRESOLVED: no such field")
			continue
		}
		seen := map[string]bool{}
		for _, a := range w.fieldAccesses(fo) {
			if freshBase(a.Addr) {
				continue
			}
			if st[a.Fn] == nil {
				st[a.Fn] = lockStates(a.Fn, nil)
			}
			ls := st[a.Fn][a.Instr]
			kind := "read"
			ok := ls.held(a.Base + "." + mutex)
			if a.Write {
				kind = "write"
				ok = ls.heldW(a.Base + "." + mutex)
			}
			how := "under " + mutex + " " + ls.String()
			if !ok && len(a.Fn.Params) > 0 && (a.Base == a.Fn.Params[0].Name() || strings.HasPrefix(a.Base, a.Fn.Params[0].Name()+".")) {
				suffix := a.Base[len(a.Fn.Params[0].Name()):]
				// a helper that requires the lock: every static caller holds it on the same receiver
				callers := w.staticCallers(a.Fn)
				all := len(callers) > 0 && len(w.dynamicCallers(a.Fn)) == 0
				for _, c := range callers {
					cf := c.Parent()
					if st[cf] == nil {
						st[cf] = lockStates(cf, nil)
					}
					cls := st[cf][c]
					path := pathOf(c.Common().Args[0]) + suffix + "." + mutex
					if a.Write && !cls.heldW(path) || !a.Write && !cls.held(path) {
						all = false
					}
					if _, isGo := c.(*ssa.Go); isGo {
						all = false
					}
				}
				if all {
					ok = true
					how = fmt.Sprintf("every caller of the helper holds %s (%d call sites)", mutex, len(callers))
				}
			}
			key := fmt.Sprintf("%s.%s %s in %s", typ, fname, kind, fnName(a.Fn))
			if seen[key] && ok {
				continue
			}
			seen[key] = true
			r.Touch(a.Fn)
			r.Sites++
			r.Decide("lockset", key, ok, how, fmt.Sprintf("%s.%s is accessed without %s (lockset %s): %s", typ, fname, mutex, ls.String(), why), a.Instr.Pos())
		}
	}
}

// decide follows a chain of conditional branches from block b, evaluating each
// condition with leaf (comparisons; `!x`; boolean merges are If chains in SSA
// already), until it reaches a block that does something else than branch.
// ok is false when a condition cannot be evaluated.
func decide(b *ssa.BasicBlock, leaf func(ssa.Value) (bool, bool)) (*ssa.BasicBlock, bool) {
	return decideWith(b, leaf, nil)
}

// decideWith: as decide, with additional instructions (calls the caller gives a value to) accepted
// inside the condition blocks.
func decideWith(b *ssa.BasicBlock, leaf func(ssa.Value) (bool, bool), alsoPure func(ssa.Instruction) bool) (*ssa.BasicBlock, bool) {
	var eval func(v ssa.Value) (bool, bool)
	eval = func(v ssa.Value) (bool, bool) {
		if k, ok := constBool(v); ok {
			return k, true
		}
		if u, ok := v.(*ssa.UnOp); ok && u.Op == token.NOT {
			x, okx := eval(u.X)
			return !x, okx
		}
		return leaf(v)
	}
	prev := b
	start := b
	for steps := 0; steps < 64; steps++ {
		// going round a loop (a block that dominates the starting point) is an outcome
		if b != start && b.Dominates(start) {
			return b, true
		}
		// only pure condition blocks are walked through (phis of merges, the compared loads, length
		// queries): anything else is an effect, i.e. an outcome
		if b != prev && !pureCondBlockWith(b, alsoPure) {
			return b, true
		}
		iff, ok := b.Instrs[len(b.Instrs)-1].(*ssa.If)
		if !ok {
			// a pure block that only jumps on (the arm of a short-circuit operator used as a value,
			// the arm of a clamp `if a < b { b = a }`): the decision continues in its successor
			if _, isJ := b.Instrs[len(b.Instrs)-1].(*ssa.Jump); isJ && len(b.Succs) == 1 {
				prev, b = b, b.Succs[0]
				continue
			}
			return b, true
		}
		var cond ssa.Value = iff.Cond
		// a boolean merge: the phi's value is decided by where we came from
		if ph, isPhi := cond.(*ssa.Phi); isPhi && ph.Block() == b {
			for k, p := range b.Preds {
				if p == prev {
					cond = ph.Edges[k]
				}
			}
		}
		v, okv := eval(cond)
		if !okv {
			return nil, false
		}
		prev = b
		if v {
			b = b.Succs[0]
		} else {
			b = b.Succs[1]
		}
	}
	return nil, false
}

func onlyPhisBefore(b *ssa.BasicBlock) bool {
	for _, in := range b.Instrs[:len(b.Instrs)-1] {
		switch in.(type) {
		case *ssa.Phi, *ssa.DebugRef:
		default:
			return false
		}
	}
	return true
}

func pureCondBlock(b *ssa.BasicBlock) bool { return pureCondBlockWith(b, nil) }

func pureCondBlockWith(b *ssa.BasicBlock, alsoPure func(ssa.Instruction) bool) bool {
	for _, in := range b.Instrs[:len(b.Instrs)-1] {
		if alsoPure != nil && alsoPure(in) {
			continue
		}
		switch x := in.(type) {
		case *ssa.Phi, *ssa.BinOp, *ssa.UnOp, *ssa.FieldAddr, *ssa.DebugRef, *ssa.Convert:
		case *ssa.Call:
			if bi, isB := x.Call.Value.(*ssa.Builtin); !(isB && bi.Name() == "len") && calleeName(x) != "(*bytes.Buffer).Len" {
				return false
			}
		default:
			return false
		}
	}
	return true
}

// natural loops: for every back edge P -> H (H dominates P) the set of blocks
// that can reach P without passing through H, plus H.
type natLoop struct {
	Head   *ssa.BasicBlock
	Blocks map[*ssa.BasicBlock]bool
}

func natLoops(f *ssa.Function) []natLoop {
	var out []natLoop
	byHead := map[*ssa.BasicBlock]*natLoop{}
	for _, b := range f.Blocks {
		for _, s := range b.Succs {
			if !s.Dominates(b) {
				continue
			}
			l := byHead[s]
			if l == nil {
				out = append(out, natLoop{Head: s, Blocks: map[*ssa.BasicBlock]bool{s: true}})
				l = &out[len(out)-1]
				byHead[s] = l
			}
			var walk func(x *ssa.BasicBlock)
			walk = func(x *ssa.BasicBlock) {
				if l.Blocks[x] {
					return
				}
				l.Blocks[x] = true
				for _, p := range x.Preds {
					walk(p)
				}
			}
			walk(b)
		}
	}
	// byHead pointers may dangle after append growth: rebuild from out is unnecessary here
	// because each natLoop holds its own map
	return out
}

// funcFieldCallsRule: a call through a func-typed field of a module struct is
// either dominated by a non-nil test of the same access path, or the field is
// never nil: every function that allocates the struct stores a value in it
// (its constructors) and every other store outside a nil-test's nil edge ...
// kept simple: every store to the field in the module stores a non-nil value,
// and every allocation of the struct type happens in a function that stores
// the field. A nil call panics, and nothing in the proxy recovers.
func funcFieldCallsRule(r *Report, rels ...string) {
	w := r.W
	n := 0
	neverNil := map[*types.Var]int{} // 0 unknown, 1 yes, 2 no
	decide := func(fo *types.Var, owner types.Type) bool {
		if v := neverNil[fo]; v != 0 {
			return v == 1
		}
		ok := true
		// every store stores a value that cannot be nil (a function, a closure, or a value tested non-nil)
		for _, st := range w.fieldStores(fo) {
			for _, l := range resolveAll(st.Val) {
				switch x := l.(type) {
				case *ssa.Function, *ssa.MakeClosure:
				case *ssa.Const:
					if x.IsNil() {
						ok = false
					}
				case *ssa.Parameter:
					// what a caller passes to a setter or an option is the caller's contract
				default:
					// a parameter spilled to a cell (captured by a closure)
					if ld, isLd := l.(*ssa.UnOp); isLd && ld.Op == token.MUL {
						if a, isA := ld.X.(*ssa.Alloc); isA {
							if sts := storesTo(a); len(sts) == 1 {
								if _, isP := sts[0].Val.(*ssa.Parameter); isP {
									continue
								}
							}
						}
					}
					// a free variable of an option closure: the option's argument
					if _, isFv := l.(*ssa.FreeVar); isFv {
						continue
					}
					guarded := false
					for _, ce := range ctrlEdges(st.Block()) {
						if b, isB := ce.If.Cond.(*ssa.BinOp); isB && (b.Op == token.EQL || b.Op == token.NEQ) {
							other := b.X
							if isNilConst(b.X) {
								other = b.Y
							} else if !isNilConst(b.Y) {
								continue
							}
							if (other == l || sameAs(other, l)) && (b.Op == token.NEQ) == ce.Taken {
								guarded = true
							}
						}
					}
					if !guarded {
						ok = false
					}
				}
			}
		}
		// every allocation of the struct is in a function that stores the field
		for _, f := range w.fns {
			allocs := false
			for _, in := range instrs(f) {
				if a, isA := in.(*ssa.Alloc); isA {
					if p, isP := a.Type().(*types.Pointer); isP && types.Identical(p.Elem(), owner) {
						allocs = true
					}
				}
			}
			if !allocs {
				continue
			}
			stores := false
			reach := map[*ssa.Function]bool{f: true}
			for _, g := range w.staticReach(f) {
				reach[g] = true
			}
			for _, st := range w.fieldStores(fo) {
				if reach[st.Parent()] {
					stores = true
				}
			}
			if !stores {
				ok = false
			}
		}
		if ok {
			neverNil[fo] = 1
		} else {
			neverNil[fo] = 2
		}
		return ok
	}
	for _, f := range w.Funcs(rels...) {
		for _, c := range calls(f) {
			cc := c.Common()
			if cc.IsInvoke() {
				continue
			}
			ld, isLd := cc.Value.(*ssa.UnOp)
			if !isLd || ld.Op != token.MUL {
				continue
			}
			fa, isFa := ld.X.(*ssa.FieldAddr)
			if !isFa {
				continue
			}
			fo := fieldObj(fa)
			if _, isSig := fo.Type().Underlying().(*types.Signature); !isSig || fo.Pkg() == nil || !strings.HasPrefix(fo.Pkg().Path(), M) {
				continue
			}
			n++
			r.Touch(f)
			path := pathOf(ld)
			guarded := false
			for _, ce := range ctrlEdges(c.Block()) {
				b, ok := ce.If.Cond.(*ssa.BinOp)
				if !ok || (b.Op != token.EQL && b.Op != token.NEQ) {
					continue
				}
				other := b.X
				if isNilConst(b.X) {
					other = b.Y
				} else if !isNilConst(b.Y) {
					continue
				}
				if (other == ssa.Value(ld) || pathOf(other) == path) && (b.Op == token.NEQ) == ce.Taken {
					guarded = true
				}
			}
			how := "dominated by a non-nil test of the same access path"
			if !guarded {
				owner := fa.X.Type().Underlying().(*types.Pointer).Elem()
				if decide(fo, owner) {
					guarded = true
					how = "the field is set to a non-nil function wherever the struct is allocated, and never to nil"
				}
			}
			r.Decide("path", fmt.Sprintf("%s: call through %s is safe from nil", fnName(f), path), guarded, how, "the function stored in "+path+" is called without a nil test although it can be nil (not set by the constructor, or set to nil by a setter): the nil call panics, and the panic, which nothing recovers, ends the proxy process", c.Pos())
		}
	}
	if n == 0 {
		r.Note("func-field calls: none in %v", rels)
	}
}

// everyRoundPasses: in every natural loop of f that contains an instruction
// satisfying pred, every trip from the loop head back to it passes such an
// instruction. Returns the number of such loops and the head of one that can
// go round without it.
func everyRoundPasses(f *ssa.Function, pred func(ssa.Instruction) bool) (n int, bad *ssa.BasicBlock) {
	g := G(f)
	for _, l := range natLoops(f) {
		has := false
		for b := range l.Blocks {
			for _, in := range b.Instrs {
				if pred(in) {
					has = true
				}
			}
		}
		if !has {
			continue
		}
		n++
		head := l.Head.Instrs[0]
		if pred(head) {
			continue
		}
		for b := range l.Blocks {
			for _, sc := range b.Succs {
				if sc != l.Head {
					continue
				}
				last := b.Instrs[len(b.Instrs)-1]
				if p := g.PathTo([]ssa.Instruction{head}, true, pred, func(i ssa.Instruction) bool { return i == last }); p != nil {
					bad = l.Head
				}
			}
		}
	}
	return n, bad
}

// scanLoopsExhaustiveRule: a loop that examines a list of values looks at all
// of them: the only ways out of each loop of f are its head (the list is
// exhausted) and edges that leave the function (return). A `break` into the
// code after the loop stops the examination at some value and lets the rest
// pass unexamined.
func scanLoopsExhaustiveRule(r *Report, f *ssa.Function, why string) {
	if f == nil || f.Blocks == nil {
		return
	}
	r.Touch(f)
	loops := natLoops(f)
	n := 0
	for _, l := range loops {
		n++
		bad := token.NoPos
		for b := range l.Blocks {
			if b == l.Head {
				continue
			}
			for _, s := range b.Succs {
				if l.Blocks[s] {
					continue
				}
				// leaving the loop from its body: fine when every path from there returns
				// without rejoining code that follows the loop ... i.e. the target is not
				// reachable from the head's own exit
				if !leavesFunction(s, l) && !exitReportsFinding(b, s) {
					bad = b.Instrs[len(b.Instrs)-1].Pos()
					if bad == token.NoPos {
						bad = f.Pos()
					}
				}
			}
		}
		r.Decide("path", fmt.Sprintf("%s: loop #%d examines every value", fnName(f), n), bad == token.NoPos, "the loop is left only at its head or by returning", why, bad)
	}
	if n == 0 {
		r.Note("%s: no loop", fnName(f))
	}
}

// leavesFunction: from block s (outside loop l) no block reachable from the
// loop head's regular exit is reached, i.e. s is on a path that only returns.
func leavesFunction(s *ssa.BasicBlock, l natLoop) bool {
	// blocks reachable from the head's exits
	after := map[*ssa.BasicBlock]bool{}
	var walk func(x *ssa.BasicBlock)
	walk = func(x *ssa.BasicBlock) {
		if after[x] || l.Blocks[x] {
			return
		}
		after[x] = true
		for _, y := range x.Succs {
			walk(y)
		}
	}
	for _, e := range l.Head.Succs {
		if !l.Blocks[e] {
			walk(e)
		}
	}
	// an exit target that is itself (or leads into) the code after the loop is a break
	seen := map[*ssa.BasicBlock]bool{}
	var reach func(x *ssa.BasicBlock) bool
	reach = func(x *ssa.BasicBlock) bool {
		if seen[x] {
			return false
		}
		seen[x] = true
		if after[x] {
			return true
		}
		for _, y := range x.Succs {
			if reach(y) {
				return true
			}
		}
		return false
	}
	return !reach(s)
}

// exitReportsFinding: every feasible path from the CFG edge b -> s ends in a
// return that reports something (a non-nil error, or true for a predicate):
// the loop was left because the scan found what it was looking for, which is
// what an early `return err` looks like after a helper has been inlined
// (result variables set, break, `if !ok { return err }`).
func exitReportsFinding(b, s *ssa.BasicBlock) bool {
	f := b.Parent()
	res := f.Signature.Results()
	if res.Len() == 0 {
		return false
	}
	last := res.Len() - 1
	paths, ok := blockPathsE(b, s, 4000)
	if !ok || len(paths) == 0 {
		return false
	}
	for _, p := range paths {
		end := p[len(p)-1]
		ret, isRet := end.Instrs[len(end.Instrs)-1].(*ssa.Return)
		if !isRet {
			return false
		}
		for _, v := range retVals(ret, last) {
			for _, l := range resolveOnPath(v, p) {
				if isErrorType(res.At(last).Type()) {
					if isNilConst(l) {
						return false
					}
					if !isFreshErr(l) {
						if _, isEx := l.(*ssa.Extract); !isEx {
							return false
						}
					}
				} else if k, isK := constBool(l); !isK || !k {
					return false
				}
			}
		}
	}
	return true
}

// sameAs: a is the value b, also when b is a parameter that a closure captures
// (go/ssa then keeps it in a cell and every use is a load of the cell).
func sameAs(a, b ssa.Value) bool {
	if a == b {
		return true
	}
	if p, ok := b.(*ssa.Parameter); ok {
		return isParamVal(a, p)
	}
	if p, ok := a.(*ssa.Parameter); ok {
		return isParamVal(b, p)
	}
	// two loads of one cell that is written once (the spilled parameter)
	la, oka := a.(*ssa.UnOp)
	lb, okb := b.(*ssa.UnOp)
	if oka && okb && la.Op == token.MUL && lb.Op == token.MUL && resolveFree(la.X) == resolveFree(lb.X) {
		if cell, isA := resolveFree(la.X).(*ssa.Alloc); isA && len(storesTo(cell)) == 1 {
			return true
		}
	}
	return false
}

// effCall is a call of a given function as seen from f: either a direct call
// in f, or a call in f of a local closure (a function literal of f) that
// forwards to it; Args are the callee's arguments expressed in f's values
// (closure parameters replaced by the arguments at the closure's call site,
// captured variables by their bindings).
type effCall struct {
	At   *ssa.Call
	Args []ssa.Value
}

func (e effCall) Block() *ssa.BasicBlock { return e.At.Block() }

func effectiveCalls(f *ssa.Function, names ...string) []effCall {
	var out []effCall
	for _, c := range plainCalls(f, names...) {
		out = append(out, effCall{c, c.Call.Args})
	}
	for _, in := range instrs(f) {
		c, ok := in.(*ssa.Call)
		if !ok {
			continue
		}
		g := c.Call.StaticCallee()
		if g == nil || g.Parent() != f {
			continue
		}
		var bindings []ssa.Value
		if mc, isMC := c.Call.Value.(*ssa.MakeClosure); isMC {
			bindings = mc.Bindings
		}
		for _, inner := range plainCalls(g, names...) {
			var args []ssa.Value
			for _, a := range inner.Call.Args {
				mapped := a
				for k, p := range g.Params {
					if a == ssa.Value(p) && k < len(c.Call.Args) {
						mapped = c.Call.Args[k]
					}
				}
				// a captured variable: the load of the free variable's cell, or the free variable itself
				fv := a
				if ld, isLd := a.(*ssa.UnOp); isLd && ld.Op == token.MUL {
					fv = ld.X
				}
				for k, v := range g.FreeVars {
					if fv == ssa.Value(v) && k < len(bindings) {
						mapped = bindings[k]
						if fv != a {
							// the binding is the cell: its single stored value
							if cell, isA := bindings[k].(*ssa.Alloc); isA && len(storesTo(cell)) == 1 {
								mapped = storesTo(cell)[0].Val
							}
						}
					}
				}
				args = append(args, mapped)
			}
			out = append(out, effCall{c, args})
		}
	}
	return out
}

// newHelperWithin: the call goes to a module function that the pinned inventory
// does not know (a helper introduced by a refactoring), and every fallible
// call inside it is a callee the caller was already allowed to fail on (or
// another such helper, to a small depth).
func newHelperWithin(w *World, c ssa.CallInstruction, want map[string]bool, norm func(string) string, seen map[string]bool, depth int) bool {
	callee := c.Common().StaticCallee()
	if callee == nil || callee.Blocks == nil || callee.Pkg == nil || !strings.HasPrefix(callee.Pkg.Pkg.Path(), M) || depth > 2 {
		return false
	}
	obj, ok := callee.Object().(*types.Func)
	if !ok {
		return false
	}
	if _, isPinned := loadInventory().Funcs[funcKey(obj)]; isPinned {
		return false
	}
	for _, in := range instrs(callee) {
		ci, isC := in.(ssa.CallInstruction)
		if !isC {
			continue
		}
		// a deferred call's error is discarded, and so is a result nobody looks at
		if _, isD := in.(*ssa.Defer); isD {
			continue
		}
		if v, isV := in.(ssa.Value); isV && (v.Referrers() == nil || len(*v.Referrers()) == 0) {
			continue
		}
		sig := ci.Common().Signature()
		if sig == nil || sig.Results().Len() == 0 || !isErrorType(sig.Results().At(sig.Results().Len()-1).Type()) {
			continue
		}
		nm := norm(calleeName(ci))
		if nm == "fmt.Errorf" || nm == "errors.New" {
			continue
		}
		if want[nm] {
			seen[nm] = true
			continue
		}
		if !newHelperWithin(w, ci, want, norm, seen, depth+1) {
			return false
		}
	}
	return true
}

// typedNilFieldRule: a struct field of interface type that the code compares
// with nil is never given a pointer-typed parameter boxed into the interface:
// a nil pointer passed to such a setter makes the field a non-nil interface
// holding nil, the `!= nil` guards pass, and the first method call through it
// dereferences nil (or, worse, takes a branch meant for "configured").
func typedNilFieldRule(r *Report, rels ...string) {
	w := r.W
	n := 0
	for _, f := range w.Funcs(rels...) {
		for _, in := range instrs(f) {
			st, ok := in.(*ssa.Store)
			if !ok {
				continue
			}
			fa, isFa := st.Addr.(*ssa.FieldAddr)
			if !isFa {
				continue
			}
			if _, isI := fieldObj(fa).Type().Underlying().(*types.Interface); !isI {
				continue
			}
			for _, l := range resolveAll(st.Val) {
				mi, isMi := l.(*ssa.MakeInterface)
				if !isMi {
					continue
				}
				if _, isPtr := mi.X.Type().Underlying().(*types.Pointer); !isPtr {
					continue
				}
				isParam := false
				for _, p := range f.Params {
					if isParamVal(mi.X, p) {
						isParam = true
					}
				}
				if !isParam {
					continue
				}
				// is the field nil-tested anywhere in the module?
				tested := false
				for _, g := range w.fns {
					for _, gi := range instrs(g) {
						b, isB := gi.(*ssa.BinOp)
						if !isB || (b.Op != token.EQL && b.Op != token.NEQ) || !(isNilConst(b.X) || isNilConst(b.Y)) {
							continue
						}
						other := b.X
						if isNilConst(b.X) {
							other = b.Y
						}
						if ld, isLd := other.(*ssa.UnOp); isLd && ld.Op == token.MUL {
							if fa2, isFa2 := ld.X.(*ssa.FieldAddr); isFa2 && fieldObj(fa2) == fieldObj(fa) {
								tested = true
							}
						}
					}
				}
				n++
				r.Touch(f)
				r.Decide("flow", fmt.Sprintf("%s: %s.%s is not given a boxed pointer parameter", fnName(f), namedOf(fa.X.Type()), fieldObj(fa).Name()), !tested, "the field is never compared with nil", "a pointer parameter is stored in the interface-typed field "+fieldObj(fa).Name()+", which the code compares with nil: a nil pointer passed in (an unset option) is a non-nil interface, the guard passes, and the branch for a configured value is taken with nothing behind it", st.Pos())
			}
		}
	}
	if n == 0 {
		r.Hold("flow", fmt.Sprintf("interface-typed fields in %v", rels), "no pointer parameter is boxed into an interface-typed field")
	}
}

// errWrapFlow: how an error value travels into the error that is returned in its place: as an
// argument of fmt.Errorf, or as text (err.Error(), possibly concatenated) handed to errors.New.
var errWrapFlow = flowOpt{Through: map[string]bool{"fmt.Errorf": true, "errors.New": true, "(error).Error": true}, CallArg: true, BinOps: true}
