#!/bin/bash
# usage: tools/benign_run.sh <dir with area/N.diff> [regex of area/N.diff to run] ; works in a scratch worktree; applies each behaviour-preserving patch to /repo, runs the area's quick checks, reverts.
# Any VIOLATION is a false alarm of the checker (the patches were confirmed to build and pass the suite).
OUT="${1:-/tmp/benign/out}"
declare -A PROPS=( [core1]="C01 C03 C02 C07" [core2]="C02 C07 C01 C03 C05 C04" [core3]="C04 C05 C02 C03" [mitm]="C06" [h2]="C08 C09 C10" [grpc]="C11" [parse]="C12 C13" [verify]="C13 C12" [spec]="C14" [log]="C15 C19 C16" [har]="C16 C17 C15" [shape]="C18" [bodystatic]="C20" )
WT=$(mktemp -d /tmp/bw-XXXXXX); git -C /repo worktree add -q --detach "$WT" HEAD || exit 2
trap 'git -C /repo worktree remove --force "$WT" >/dev/null 2>&1; rm -rf "$WT"' EXIT
ONLY="${2:-}"
mkdir -p /tmp/vtest; cp /verif/known_findings.json /tmp/vtest/
for a in "${!PROPS[@]}"; do
  for d in "$OUT/$a"/[0-9]*.diff; do
    [ -f "$d" ] || continue
    [ -n "$ONLY" ] && ! echo "$a/$(basename $d)" | grep -qE "$ONLY" && continue
    git -C "$WT" apply "$d" 2>/dev/null || { echo "SKIP $a/$(basename $d) does not apply"; continue; }
    for p in ${PROPS[$a]}; do
      out=$(/verif/bin/martiancheck -prop $p -tier quick -repo "$WT" -verif /tmp/vtest 2>&1); rc=$?
      if [ $rc -ne 0 ]; then echo "ALARM $a/$(basename $d) $p rc=$rc"; echo "$out" | grep -A1 "^VIOLATION\|TOOLING" | grep -v "^VIOLATION\|^--" | cut -c1-300 | sed 's/^/    /'; else echo "quiet $a/$(basename $d) $p"; fi
    done
    git -C "$WT" checkout -- . ; git -C "$WT" clean -fdq
  done
done
