#!/bin/bash
# Applies every kept seeded change to /repo in turn, runs the quick check of its property, reverts.
# Prints one line per seed: DETECTED (exit 1 with a VIOLATION naming a rule) or MISSED.
cd /verif
for d in seeded/*/; do
  name=$(basename "$d"); prop=${name%%-*}
  out=$(tools/seedcheck.sh "$prop" "/verif/${d}patch.diff" 2>&1)
  if echo "$out" | grep -q "seedcheck exit=1"; then
    echo "DETECTED $name $(echo "$out" | grep -m1 -oE "^  C[0-9]+\.R[0-9]+ \[[a-z]+\]")"
  else
    echo "MISSED   $name $(echo "$out" | tail -1)"
  fi
done
