#!/usr/bin/env python3
"""Regenerates /verif/MANIFEST.json from the tables below (keeps it schema-valid)."""
import json, os, sys
HERE = os.path.dirname(os.path.dirname(os.path.abspath(__file__)))

# property id -> (design section, technique, what the check decides, what it assumes / does not cover)
CLAIMED = {}
NOT_APPLICABLE = {}

def claim(pid, design, technique, text, note):
    CLAIMED[pid] = (design, technique, text, note)

exec(open(os.path.join(HERE, "tools", "manifest_entries.py")).read())

props = [json.loads(l)["id"] for l in open(os.path.join(HERE, "properties.jsonl"))]
checks = []
for pid in props:
    if pid not in CLAIMED:
        continue
    design, technique, text, note = CLAIMED[pid]
    checks.append({
        "property_id": pid,
        "quick_cmd": "bin/check %s quick" % pid,
        "thorough_cmd": "bin/check %s thorough" % pid,
        "evidence_file": "/verif/evidence/%s.json" % pid,
        "replay_cmd_template": "bin/check --explain {path}",
        "engine": "martiancheck",
        "level_claimed": {"category": "other", "text": text, "design_ref": design},
        "level_note": note,
        "technique": technique,
    })
na = [{"property_id": pid, "reason": NOT_APPLICABLE.get(pid, "check not built yet (see DESIGN.md section 9 for the plan); no claim is made")}
      for pid in props if pid not in CLAIMED]
manifest = {
    "version": 1,
    "setup_cmd": "cd checker && GOFLAGS=-mod=vendor GOPROXY=off GOSUMDB=off GOTOOLCHAIN=local GOWORK=off go build -o ../bin/martiancheck .",
    "hooks": {
        "guard": "verif",
        "enable": "none: static analysis reads /repo's source as it is; no hook or instrumentation commit exists",
        "baseline_off_cmd": "cd /repo && go test -mod=mod -json -vet=off -count=1 -timeout 25m ./...",
        "source_commits": [],
        "add_only": True,
    },
    "engines": [{
        "name": "martiancheck",
        "path": "checker/",
        "serves_properties": [c["property_id"] for c in checks],
        "kind_free_text": "repository-specific static analyser: go/packages + go/types + go/ssa (x/tools v0.29.0, vendored); rules = dominance, must-pass-through, path event counting, locksets, def-use value flow, sibling agreement, table extraction; obligations keyed (rule, construct)",
    }],
    "checks": checks,
    "notes": "All claims are at level 'other': structural necessary conditions of each property decided from source for every path / call site / field / sibling. Behavioural clauses that quantify over runtime values are declined per property (DESIGN.md section 4 and each evidence file's coverage.explanation). Genuine defects found are fixed in /repo ('fix:' commits) or listed in known_findings.json.",
    "not_applicable": na,
}
json.dump(manifest, open(os.path.join(HERE, "MANIFEST.json"), "w"), indent=1)
print("claimed", len(checks), "not_applicable", len(na))
