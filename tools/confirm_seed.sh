#!/bin/bash
# usage: tools/confirm_seed.sh <seed-dir containing patch.diff and *_test.go> <package dir relative to repo root, e.g. . or h2>
# Confirms in a scratch worktree: builds, full suite passes with the change, demo fails with it and passes without it.
set -u
SEED="$1"; PKG="${2:-.}"
export GOFLAGS=-mod=mod GOPROXY=off GOSUMDB=off GOTOOLCHAIN=local
WT=$(mktemp -d /tmp/confirm-XXXXXX)
git -C /repo worktree add -q --detach "$WT" HEAD || exit 2
trap 'git -C /repo worktree remove --force "$WT" >/dev/null 2>&1; rm -rf "$WT"' EXIT
cd "$WT"
git apply "$SEED/patch.diff" || { echo "CONFIRM: patch does not apply"; exit 2; }
go build ./... || { echo "CONFIRM: build fails"; exit 1; }
if go test -mod=mod -vet=off -count=1 -timeout 10m ./... > "$WT/suite.log" 2>&1; then echo "CONFIRM: suite passes with the change"; else echo "CONFIRM: SUITE FAILS with the change"; grep -E "^(FAIL|---)" "$WT/suite.log" | head; exit 1; fi
cp "$SEED"/*_test.go "$PKG"/
if go test -mod=mod -vet=off -count=1 -timeout 120s -run 'Seed' ./"$PKG" > "$WT/demo_with.log" 2>&1; then echo "CONFIRM: DEMO PASSES with the change (bad)"; exit 1; else echo "CONFIRM: demo fails with the change: $(grep -m1 -E '^\s+\S+_test.go' "$WT/demo_with.log" | cut -c1-200)"; fi
git apply -R "$SEED/patch.diff"
if go test -mod=mod -vet=off -count=1 -timeout 120s -run 'Seed' ./"$PKG" > "$WT/demo_without.log" 2>&1; then echo "CONFIRM: demo passes without the change"; else echo "CONFIRM: DEMO FAILS without the change (bad)"; tail -5 "$WT/demo_without.log"; exit 1; fi
echo "CONFIRM: OK"
