#!/usr/bin/env python3
"""usage: keep_seed.py <prop> <src-dir> <name> <pkgdir> <detected-by> <needs...>
Copies a confirmed seeded change into /verif/seeded/<prop>-<name>/ with meta.json."""
import sys, os, shutil, json, glob
prop, src, name, pkgdir, detected = sys.argv[1:6]
needs = " ".join(sys.argv[6:])
dst = "/verif/seeded/%s-%s" % (prop, name)
os.makedirs(dst, exist_ok=True)
shutil.copy(os.path.join(src, "patch.diff"), dst)
demos = []
for f in glob.glob(os.path.join(src, "*_test.go")):
    # keep demos inert for go tooling that might walk /verif: store with a .txt suffix
    shutil.copy(f, os.path.join(dst, os.path.basename(f) + ".txt"))
    demos.append(os.path.basename(f))
for n in ("notes.md",):
    p = os.path.join(src, n)
    if not os.path.exists(p):
        p = os.path.join(os.path.dirname(src.rstrip("/")), n)
    if os.path.exists(p):
        shutil.copy(p, dst)
meta = {
    "property": prop,
    "breaks": needs.split("||")[0].strip(),
    "needs_to_manifest": needs.split("||")[1].strip() if "||" in needs else "",
    "demo_files": demos,
    "demo_package_dir": pkgdir,
    "confirmed_with": "tools/confirm_seed.sh <dir> %s  (scratch worktree of /repo: go build ./...; full suite passes with the change; demo fails with it, passes without it)" % pkgdir,
    "checked_with": "tools/seedcheck.sh %s seeded/%s-%s/patch.diff  (git -C /repo apply; bin/martiancheck; git -C /repo checkout -- .)" % (prop, prop, name),
    "detected_by": detected,
    "origin": "independent sub-agent given only the property text and a scratch worktree",
}
json.dump(meta, open(os.path.join(dst, "meta.json"), "w"), indent=1)
print("kept", dst)
