#!/bin/bash
# usage: tools/try_seed.sh <out-dir e.g. /tmp/seed3/out/C02> <a|b> [pkgdir]
# Confirms a candidate seeded change in a scratch worktree, then runs the property's quick check against it.
set -u
OUT="$1"; X="$2"
PROP=$(basename "$OUT")
D="$OUT/$X"
PKG="${3:-}"
if [ -z "$PKG" ]; then
  # derive from the demo's package clause by finding a directory in /repo with that package name: fall back to first comment line
  PKG=$(head -5 "$D"/zz_seed_*_test.go | grep -oE '(package directory|belongs in|directory)[^`"]*[`"]([A-Za-z0-9_/.]+)[`"]' | grep -oE '[`"][A-Za-z0-9_/.]+[`"]' | tr -d '`"' | head -1)
  [ -z "$PKG" ] && PKG=.
fi
echo "== $PROP/$X pkg=$PKG"
/verif/tools/confirm_seed.sh "$D" "$PKG" 2>&1 | grep CONFIRM
/verif/tools/seedcheck.sh "$PROP" "$D/patch.diff" 2>&1 | grep -v "^VIOLATION" | cut -c1-330 | tail -8
