#!/bin/bash
# usage: tools/mut_recheck.sh <tag> <relpath> <props comma separated>
# Re-runs the current checker on the survived-UNDETECTED mutants of an earlier mutrun (files in /tmp/mut/<tag>/<id>.go),
# in a scratch worktree; prints the ones that are still undetected.
TAG=$1; REL=$2; PROPS=$3
WT=$(mktemp -d /tmp/mr-XXXXXX); git -C /repo worktree add -q --detach "$WT" HEAD || exit 2
trap 'git -C /repo worktree remove --force "$WT" >/dev/null 2>&1; rm -rf "$WT"' EXIT
mkdir -p /tmp/vtest-mr; cp /verif/known_findings.json /tmp/vtest-mr/
grep UNDETECTED /tmp/mut/$TAG/results.tsv | while IFS=$'\t' read -r id op line fn change rest; do
  cp /tmp/mut/$TAG/$id.go "$WT/$REL"
  det=""
  for p in ${PROPS//,/ }; do
    out=$(/verif/bin/martiancheck -prop $p -tier quick -repo "$WT" -verif /tmp/vtest-mr 2>&1); rc=$?
    if [ $rc -ne 0 ]; then det="$det $p:$(echo "$out" | grep -m1 '\[violated\]\|\[undecided\]' | cut -c3-120)"; fi
  done
  if [ -z "$det" ]; then echo "STILL-UNDETECTED $id $op $line $fn $change"; else echo "now-detected $id $op $line $fn |$det"; fi
  git -C "$WT" checkout -- . 
done
