#!/usr/bin/env python3
"""Mutation pipeline: first-order mutants of one file -> build -> tests of every package whose
tests depend on the mutated package -> survivors are given to the property checks.

usage: tools/mutrun.py <repo-relative file> <props comma separated> [workers] [func-regex]
Results: /tmp/mut/<tag>/results.tsv  (id, operator, line, function, change, outcome, detail)
outcome: nocompile | killed | survived-detected | survived-UNDETECTED
"""
import sys, os, subprocess, re, json, shutil, threading, queue, time

ENV = dict(os.environ, GOFLAGS="-mod=mod", GOPROXY="off", GOSUMDB="off", GOTOOLCHAIN="local", GOWORK="off")
M = "github.com/google/martian/v3"
CHECKER = "/verif/bin/martiancheck"

def sh(cmd, cwd, timeout):
    try:
        p = subprocess.run(cmd, cwd=cwd, env=ENV, stdout=subprocess.PIPE, stderr=subprocess.STDOUT, timeout=timeout, text=True, errors="replace")
        return p.returncode, p.stdout
    except subprocess.TimeoutExpired as e:
        return 124, "TIMEOUT"

def dependents(pkgpath):
    """packages (dirs) whose build or tests transitively import pkgpath"""
    rc, out = sh(["go", "list", "-test", "-deps", "-f", "{{.ImportPath}}", "./..."], "/repo", 300)
    rc, out = sh(["go", "list", "-f", "{{.ImportPath}}|{{join .Deps \",\"}}|{{join .TestImports \",\"}}|{{join .XTestImports \",\"}}", "./..."], "/repo", 300)
    pk = {}
    for l in out.splitlines():
        if "|" not in l: continue
        ip, deps, ti, xti = l.split("|")
        pk[ip] = (set(deps.split(",")), set(ti.split(",")) | set(xti.split(",")))
    res = []
    for ip, (deps, timps) in pk.items():
        alld = set(deps)
        for t in timps:
            alld.add(t)
            if t in pk: alld |= pk[t][0]
        if ip == pkgpath or pkgpath in alld:
            res.append("./" + ip[len(M):].lstrip("/") if ip != M else ".")
    return sorted(set(res))

def main():
    rel = sys.argv[1]; props = sys.argv[2].split(","); workers = int(sys.argv[3]) if len(sys.argv) > 3 else 6
    fre = re.compile(sys.argv[4]) if len(sys.argv) > 4 else None
    tag = rel.replace("/", "_").replace(".go", "")
    os.makedirs("/tmp/mutbin", exist_ok=True)
    global CHECKER
    CHECKER = f"/tmp/mutbin/martiancheck-{tag}"
    shutil.copy("/verif/bin/martiancheck", CHECKER)
    out = f"/tmp/mut/{tag}"
    shutil.rmtree(out, ignore_errors=True)
    subprocess.run(["/verif/bin/mutgen", "/repo/" + rel, out], check=True)
    pkgdir = os.path.dirname(rel) or "."
    pkgpath = M if pkgdir == "." else M + "/" + pkgdir
    deps = dependents(pkgpath)
    print("test packages:", deps, flush=True)
    muts = []
    for l in open(out + "/index.tsv"):
        k, op, line, fn, chg = l.rstrip("\n").split("\t", 4)
        chg = chg.replace("\t", " ")
        if fre and not fre.search(fn): continue
        muts.append((k, op, line, fn, chg))
    q = queue.Queue()
    for m in muts: q.put(m)
    lock = threading.Lock()
    resf = open(out + "/results.tsv", "w")
    def worker(i):
        wt = f"/tmp/mutwt/{tag}-{i}"
        subprocess.run(["git", "-C", "/repo", "worktree", "remove", "--force", wt], stderr=subprocess.DEVNULL)
        shutil.rmtree(wt, ignore_errors=True)
        subprocess.run(["git", "-C", "/repo", "worktree", "add", "-q", "--detach", wt, "HEAD"], check=True)
        vt = f"/tmp/mutvt/{tag}-{i}"; os.makedirs(vt, exist_ok=True); shutil.copy("/verif/known_findings.json", vt)
        while True:
            try: k, op, line, fn, chg = q.get_nowait()
            except queue.Empty: break
            shutil.copy(f"{out}/{k}.go", f"{wt}/{rel}")
            outcome, detail = "", ""
            rc, o = sh(["go", "build", "./..."], wt, 180)
            if rc != 0:
                outcome = "nocompile"
            else:
                rc, o = sh(["go", "vet", "./" + pkgdir], wt, 180)
                # stage 1: the package's own tests (most mutants die here); stage 2: every dependent package
                rc, o = sh(["go", "test", "-vet=off", "-count=1", "-timeout", "90s", "./" + pkgdir], wt, 200)
                if rc == 0:
                    rc, o = sh(["go", "test", "-vet=off", "-count=1", "-timeout", "120s"] + deps, wt, 400)
                if rc != 0:
                    # a flaky timing test under load must not count as a kill: retry the failing packages once
                    failed = sorted(set(re.findall(r"^(?:FAIL|---)\s+(\S+)", o, re.M)))
                    fp = [("./" + f[len(M):].lstrip("/")) if f != M else "." for f in failed if f.startswith(M)]
                    rc2 = 1
                    if fp:
                        rc2, o2 = sh(["go", "test", "-vet=off", "-count=1", "-timeout", "180s"] + sorted(set(fp)), wt, 400)
                    if rc2 != 0:
                        outcome = "killed"; detail = ",".join(failed)[:120]
                if not outcome:
                    det = []
                    for p in props:
                        rc, o = sh([CHECKER, "-prop", p, "-tier", "quick", "-repo", wt, "-verif", vt], "/verif", 300)
                        if rc != 0:
                            m = re.search(r"^  (C\d\d\.R\d+ \[\w+\] .{0,140})", o, re.M)
                            det.append(m.group(1) if m else f"{p} rc={rc}")
                    outcome = "survived-detected" if det else "survived-UNDETECTED"
                    detail = " || ".join(det)[:400]
            subprocess.run(["git", "-C", wt, "checkout", "-q", "--", "."])
            with lock:
                resf.write("\t".join([k, op, line, fn, chg, outcome, detail]) + "\n"); resf.flush()
        subprocess.run(["git", "-C", "/repo", "worktree", "remove", "--force", wt], stderr=subprocess.DEVNULL)
    ts = [threading.Thread(target=worker, args=(i,)) for i in range(workers)]
    t0 = time.time()
    for t in ts: t.start()
    for t in ts: t.join()
    resf.close()
    tally = {}
    for l in open(out + "/results.tsv"):
        o = l.split("\t")[5]; tally[o] = tally.get(o, 0) + 1
    print(tag, tally, "%.0fs" % (time.time() - t0))

main()
