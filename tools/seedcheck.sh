#!/bin/bash
# usage: tools/seedcheck.sh <property> <patch.diff> [tier]  -- applies the patch to /repo, runs the check, reverts.
set -u
PROP="$1"; PATCH="$2"; TIER="${3:-quick}"
cd /repo && [ -z "$(git status --porcelain)" ] || { echo "repo dirty"; exit 2; }
git -C /repo apply "$PATCH" || { echo "patch does not apply"; exit 2; }
mkdir -p /tmp/vtest-seed; cp /verif/known_findings.json /tmp/vtest-seed/; /verif/bin/martiancheck -prop "$PROP" -tier "$TIER" -repo /repo -verif /tmp/vtest-seed | grep -v "^KNOWN-FINDING" | cut -c1-400
rc=${PIPESTATUS[0]}
git -C /repo checkout -- . ; git -C /repo clean -fdq
echo "seedcheck exit=$rc"
