// mutgen writes first-order mutants of one Go source file.
//
// usage: mutgen <file.go> <outdir>
//
// For mutant k it writes <outdir>/k.go (the whole mutated file) and appends a
// line "k<TAB>operator<TAB>line<TAB>function<TAB>before -> after" to <outdir>/index.tsv.
package main

import (
	"fmt"
	"go/ast"
	"go/parser"
	"go/token"
	"os"
	"path/filepath"
	"strconv"
	"strings"
)

type edit struct {
	op         string
	start, end int
	text       string
	fn         string
	line       int
}

func isLogCall(st ast.Stmt) bool {
	es, ok := st.(*ast.ExprStmt)
	if !ok {
		return false
	}
	call, ok := es.X.(*ast.CallExpr)
	if !ok {
		return false
	}
	sel, ok := call.Fun.(*ast.SelectorExpr)
	if !ok {
		return false
	}
	id, ok := sel.X.(*ast.Ident)
	return ok && id.Name == "log"
}

func logOnly(b *ast.BlockStmt) bool {
	if b == nil || len(b.List) == 0 {
		return false
	}
	for _, st := range b.List {
		if !isLogCall(st) {
			return false
		}
	}
	return true
}

func logOnlyElse(e ast.Stmt) bool {
	switch x := e.(type) {
	case *ast.BlockStmt:
		return logOnly(x)
	case *ast.IfStmt:
		return logOnly(x.Body) && (x.Else == nil || logOnlyElse(x.Else))
	}
	return false
}

func main() {
	file, out := os.Args[1], os.Args[2]
	src, err := os.ReadFile(file)
	if err != nil {
		panic(err)
	}
	fset := token.NewFileSet()
	f, err := parser.ParseFile(fset, file, src, parser.ParseComments)
	if err != nil {
		panic(err)
	}
	off := func(p token.Pos) int { return fset.Position(p).Offset }
	var edits []edit
	for _, d := range f.Decls {
		fd, ok := d.(*ast.FuncDecl)
		if !ok || fd.Body == nil {
			continue
		}
		name := fd.Name.Name
		if fd.Recv != nil && len(fd.Recv.List) == 1 {
			t := fd.Recv.List[0].Type
			if s, isS := t.(*ast.StarExpr); isS {
				t = s.X
			}
			if id, isId := t.(*ast.Ident); isId {
				name = id.Name + "." + name
			}
		}
		add := func(op string, s, e token.Pos, text string) {
			edits = append(edits, edit{op, off(s), off(e), text, name, fset.Position(s).Line})
		}
		ast.Inspect(fd.Body, func(n ast.Node) bool {
			switch x := n.(type) {
			case *ast.BinaryExpr:
				repl := map[token.Token][]string{
					token.LSS: {"<="}, token.LEQ: {"<"}, token.GTR: {">="}, token.GEQ: {">"},
					token.EQL: {"!="}, token.NEQ: {"=="}, token.LAND: {"||"}, token.LOR: {"&&"},
					token.ADD: {"-"}, token.SUB: {"+"},
				}
				for _, r := range repl[x.Op] {
					add("BINOP", x.OpPos, x.OpPos+token.Pos(len(x.Op.String())), r)
				}
			case *ast.IfStmt:
				// a condition that only selects what is logged is not behaviour: skip it and
				// the operators inside it
				if logOnly(x.Body) && (x.Else == nil || logOnlyElse(x.Else)) {
					if x.Init != nil {
						ast.Inspect(x.Init, func(ast.Node) bool { return true })
					}
					return false
				}
				add("NEGCOND", x.Cond.Pos(), x.Cond.End(), "!("+string(src[off(x.Cond.Pos()):off(x.Cond.End())])+")")
			case *ast.ExprStmt:
				if call, isCall := x.X.(*ast.CallExpr); isCall {
					// logging statements are not behaviour
					if sel, isSel := call.Fun.(*ast.SelectorExpr); isSel {
						if id, isId := sel.X.(*ast.Ident); isId && id.Name == "log" {
							return true
						}
					}
					add("DELSTMT", x.Pos(), x.End(), "")
				}
			case *ast.AssignStmt:
				if x.Tok == token.ASSIGN || x.Tok == token.ADD_ASSIGN || x.Tok == token.SUB_ASSIGN {
					add("DELSTMT", x.Pos(), x.End(), "")
				}
			case *ast.IncDecStmt:
				add("DELSTMT", x.Pos(), x.End(), "")
			case *ast.DeferStmt:
				add("DELDEFER", x.Pos(), x.End(), "")
				add("UNDEFER", x.Pos(), x.Call.Pos(), "")
			case *ast.GoStmt:
				add("UNGO", x.Pos(), x.Call.Pos(), "")
			case *ast.BranchStmt:
				if x.Label == nil {
					switch x.Tok {
					case token.BREAK:
						add("BRANCH", x.Pos(), x.End(), "continue")
					case token.CONTINUE:
						add("BRANCH", x.Pos(), x.End(), "break")
					}
				}
			case *ast.ReturnStmt:
				for _, r := range x.Results {
					if id, isId := r.(*ast.Ident); isId && (id.Name == "err" || strings.HasSuffix(id.Name, "Err") || strings.HasSuffix(id.Name, "err")) {
						add("RETNIL", id.Pos(), id.End(), "nil")
					}
					if id, isId := r.(*ast.Ident); isId && (id.Name == "true" || id.Name == "false") {
						add("BOOL", id.Pos(), id.End(), map[string]string{"true": "false", "false": "true"}[id.Name])
					}
				}
			case *ast.BasicLit:
				if x.Kind == token.INT {
					if v, err := strconv.ParseInt(x.Value, 0, 64); err == nil {
						if v <= 1 {
							add("CONST", x.Pos(), x.End(), strconv.FormatInt(1-v, 10))
						}
					}
				}
			case *ast.Ident:
				// boolean literals outside returns (assignments, arguments)
			}
			return true
		})
	}
	os.MkdirAll(out, 0o755)
	idx, _ := os.Create(filepath.Join(out, "index.tsv"))
	defer idx.Close()
	for k, e := range edits {
		var b strings.Builder
		b.Write(src[:e.start])
		b.WriteString(e.text)
		b.Write(src[e.end:])
		os.WriteFile(filepath.Join(out, fmt.Sprintf("%d.go", k)), []byte(b.String()), 0o644)
		before := strings.ReplaceAll(string(src[e.start:e.end]), "\n", " ")
		if len(before) > 60 {
			before = before[:60] + "…"
		}
		fmt.Fprintf(idx, "%d\t%s\t%d\t%s\t%s -> %s\n", k, e.op, e.line, e.fn, before, strings.ReplaceAll(e.text, "\n", " "))
	}
	fmt.Println(len(edits), "mutants")
}
