package triage

// Reproductions for C13 findings (copied into a scratch package inside /repo
// while triaging; never committed there).

import (
	"errors"
	"net/http"
	"sync"
	"testing"

	"github.com/google/martian/v3"
	"github.com/google/martian/v3/failure"
	"github.com/google/martian/v3/filter"
	"github.com/google/martian/v3/header"
	"github.com/google/martian/v3/method"
	"github.com/google/martian/v3/proxyutil"
	"github.com/google/martian/v3/verify"
)

type always bool

func (a always) MatchRequest(*http.Request) bool   { return bool(a) }
func (a always) MatchResponse(*http.Response) bool { return bool(a) }

// F18 / C13.R1: a reset does not reach the verifier under the filter's else branch.
func TestTriageFilterResetFalseBranch(t *testing.T) {
	f := filter.New()
	f.SetResponseCondition(always(false))
	tv := &verify.TestVerifier{ResponseError: errors.New("verify response failure")}
	f.ResponseWhenFalse(tv)
	if err := f.VerifyResponses(); err == nil {
		t.Fatal("VerifyResponses(): got nil, want the else-branch verifier's error")
	}
	f.ResetResponseVerifications()
	if err := f.VerifyResponses(); err != nil {
		t.Fatalf("reset did not reach the else-branch verifier: still %v", err)
	}
}

// F21 / C13.R5: API requests must not be counted.
func TestTriageAPIRequestsNotCounted(t *testing.T) {
	for name, v := range map[string]verify.RequestVerifier{
		"header":  header.NewVerifier("X-Absent", "").(verify.RequestVerifier),
		"failure": mustRV(failure.NewVerifier("always")),
	} {
		req, _ := http.NewRequest("GET", "http://martian.proxy/verify", nil)
		ctx, remove, err := martian.TestContext(req, nil, nil)
		if err != nil {
			t.Fatal(err)
		}
		ctx.APIRequest()
		v.(martian.RequestModifier).ModifyRequest(req)
		remove()
		if err := v.VerifyRequests(); err != nil {
			t.Errorf("%s verifier counted a request addressed to the proxy API: %v", name, err)
		}
	}
	mv, _ := method.NewVerifier("POST")
	req, _ := http.NewRequest("GET", "http://martian.proxy/verify", nil)
	ctx, remove, _ := martian.TestContext(req, nil, nil)
	ctx.APIRequest()
	mv.(martian.RequestModifier).ModifyRequest(req)
	remove()
	if err := mv.VerifyRequests(); err != nil {
		t.Errorf("method verifier counted an API request: %v", err)
	}
	hv := header.NewVerifier("X-Absent", "")
	res := proxyutil.NewResponse(200, nil, req)
	ctx, remove, _ = martian.TestContext(req, nil, nil)
	ctx.APIRequest()
	hv.(martian.ResponseModifier).ModifyResponse(res)
	remove()
	if err := hv.VerifyResponses(); err != nil {
		t.Errorf("header verifier counted an API response: %v", err)
	}
}

func mustRV(v verify.RequestVerifier, err error) verify.RequestVerifier {
	if err != nil {
		panic(err)
	}
	return v
}

// F19 / C13.R3 and F20 / C13.R4: run with -race.
func TestTriageRaceEmptyAndReset(t *testing.T) {
	merr := martian.NewMultiError()
	var wg sync.WaitGroup
	wg.Add(2)
	go func() {
		defer wg.Done()
		for i := 0; i < 1000; i++ {
			merr.Add(errors.New("x"))
		}
	}()
	go func() {
		defer wg.Done()
		for i := 0; i < 1000; i++ {
			merr.Empty()
		}
	}()
	wg.Wait()
}

func TestTriageRaceVerifierReset(t *testing.T) {
	v := header.NewVerifier("X-Absent", "")
	req, _ := http.NewRequest("GET", "http://example.com", nil)
	var wg sync.WaitGroup
	wg.Add(2)
	go func() {
		defer wg.Done()
		for i := 0; i < 1000; i++ {
			v.(martian.RequestModifier).ModifyRequest(req)
		}
	}()
	go func() {
		defer wg.Done()
		for i := 0; i < 1000; i++ {
			v.ResetRequestVerifications()
		}
	}()
	wg.Wait()
}
