package h2

// Reproductions for C08/C09/C10 findings; copied into /repo/h2 while triaging.

import (
	"bytes"
	"crypto/rand"
	"crypto/rsa"
	"crypto/x509/pkix"
	"math/big"
	"crypto/tls"
	"crypto/x509"
	"io"
	"net"
	"net/url"
	"testing"
	"testing/iotest"
	"time"

	"golang.org/x/net/http2"
	"golang.org/x/net/http2/hpack"
)

type recProc struct {
	headerEnded []bool
}

func (p *recProc) Data([]byte, bool) error { return nil }
func (p *recProc) Header(_ []hpack.HeaderField, ended bool, _ http2.PriorityParam) error {
	p.headerEnded = append(p.headerEnded, ended)
	return nil
}
func (p *recProc) Priority(http2.PriorityParam) error            { return nil }
func (p *recProc) RSTStream(http2.ErrCode) error                 { return nil }
func (p *recProc) PushPromise(uint32, []hpack.HeaderField) error { return nil }

// F9 / C08.R3: HEADERS (no END_STREAM) split across a CONTINUATION frame.
func TestTriageContinuationKeepsEndStream(t *testing.T) {
	var wire bytes.Buffer
	fr := http2.NewFramer(&wire, &wire)
	var hb bytes.Buffer
	enc := hpack.NewEncoder(&hb)
	enc.WriteField(hpack.HeaderField{Name: ":method", Value: "POST"})
	enc.WriteField(hpack.HeaderField{Name: "x-long", Value: "0123456789"})
	block := hb.Bytes()
	fr.WriteHeaders(http2.HeadersFrameParam{StreamID: 1, BlockFragment: block[:3], EndStream: false, EndHeaders: false})
	fr.WriteContinuation(1, true, block[3:])
	dbg := false
	var out bytes.Buffer
	r := newRelay(ClientToServer, "c", "s", fr, http2.NewFramer(&out, &out), &dbg)
	rec := &recProc{}
	r.processors = &streamProcessors{create: func(uint32) *Processors { return &Processors{cToS: rec, sToC: rec} }}
	for i := 0; i < 2; i++ {
		f, err := fr.ReadFrame()
		if err != nil {
			t.Fatal(err)
		}
		if err := r.processFrame(f); err != nil {
			t.Fatal(err)
		}
	}
	if len(rec.headerEnded) != 1 {
		t.Fatalf("Header called %d times", len(rec.headerEnded))
	}
	if rec.headerEnded[0] {
		t.Fatal("a header block completed by CONTINUATION was delivered with END_STREAM although the HEADERS frame did not carry it")
	}
}

// F11 / C08.R7: the transport delivers the preface in small pieces.
func TestTriagePrefaceInPieces(t *testing.T) {
	var server bytes.Buffer
	client := iotest.OneByteReader(bytes.NewReader(connectionPreface))
	if err := forwardPreface(&server, client); err != nil {
		t.Fatalf("preface delivered byte by byte was rejected: %v", err)
	}
	if !bytes.Equal(server.Bytes(), connectionPreface) {
		t.Fatalf("forwarded %q", server.Bytes())
	}
}

// F12 / C09.R1: a padded DATA frame must be credited with its flow-controlled length.
func TestTriagePaddedDataCredit(t *testing.T) {
	var wire bytes.Buffer
	fr := http2.NewFramer(&wire, &wire)
	fr.WriteDataPadded(1, false, []byte("hello"), make([]byte, 10))
	f, err := fr.ReadFrame()
	if err != nil {
		t.Fatal(err)
	}
	df := f.(*http2.DataFrame)
	dbg := false
	var out bytes.Buffer
	r := newRelay(ClientToServer, "c", "s", fr, http2.NewFramer(&out, &out), &dbg)
	if err := r.sendWindowUpdates(df); err != nil {
		t.Fatal(err)
	}
	rd := http2.NewFramer(io.Discard, &out)
	for i := 0; i < 2; i++ {
		g, err := rd.ReadFrame()
		if err != nil {
			t.Fatal(err)
		}
		wu := g.(*http2.WindowUpdateFrame)
		if wu.Increment != df.Header().Length {
			t.Fatalf("WINDOW_UPDATE on stream %d credits %d bytes, flow-controlled length of the DATA frame is %d", wu.StreamID, wu.Increment, df.Header().Length)
		}
	}
}

// F13 / C10.R1: the upstream connection must be closed when Proxy returns (here: bad preface).
func TestTriageUpstreamClosedOnPrefaceError(t *testing.T) {
	key, _ := rsa.GenerateKey(rand.Reader, 2048)
	tmpl := &x509.Certificate{SerialNumber: big.NewInt(1), Subject: pkix.Name{CommonName: "localhost"}, DNSNames: []string{"localhost"},
		NotBefore: time.Now().Add(-time.Hour), NotAfter: time.Now().Add(time.Hour), IsCA: true, BasicConstraintsValid: true,
		KeyUsage: x509.KeyUsageCertSign | x509.KeyUsageDigitalSignature, ExtKeyUsage: []x509.ExtKeyUsage{x509.ExtKeyUsageServerAuth}}
	der, _ := x509.CreateCertificate(rand.Reader, tmpl, tmpl, key.Public(), key)
	ca, _ := x509.ParseCertificate(der)
	l, err := tls.Listen("tcp", "127.0.0.1:0", &tls.Config{Certificates: []tls.Certificate{{Certificate: [][]byte{der}, PrivateKey: key}}})
	if err != nil {
		t.Fatal(err)
	}
	closed := make(chan error, 1)
	go func() {
		c, err := l.Accept()
		if err != nil {
			closed <- err
			return
		}
		c.SetReadDeadline(time.Now().Add(3 * time.Second))
		_, err = io.ReadAll(c)
		closed <- err
	}()
	roots := x509.NewCertPool()
	roots.AddCert(ca)
	cfg := &Config{RootCAs: roots}
	_, port, _ := net.SplitHostPort(l.Addr().String())
	u, _ := url.Parse("https://localhost:" + port)
	cc := &rw{Reader: bytes.NewReader([]byte("GET / HTTP/1.1\r\n\r\n-not-a-preface-")), Writer: io.Discard}
	if err := cfg.Proxy(make(chan bool), cc, u); err == nil {
		t.Fatal("expected a preface error")
	}
	if err := <-closed; err != nil {
		t.Fatalf("upstream connection was not closed after Proxy returned: %v", err)
	}
}

type rw struct {
	io.Reader
	io.Writer
}

// F14 / C10.R2: the server goes away; the client stays connected and silent.
func TestTriageProxyReturnsWhenServerEnds(t *testing.T) {
	key, _ := rsa.GenerateKey(rand.Reader, 2048)
	tmpl := &x509.Certificate{SerialNumber: big.NewInt(1), Subject: pkix.Name{CommonName: "localhost"}, DNSNames: []string{"localhost"},
		NotBefore: time.Now().Add(-time.Hour), NotAfter: time.Now().Add(time.Hour), IsCA: true, BasicConstraintsValid: true,
		KeyUsage: x509.KeyUsageCertSign | x509.KeyUsageDigitalSignature, ExtKeyUsage: []x509.ExtKeyUsage{x509.ExtKeyUsageServerAuth}}
	der, _ := x509.CreateCertificate(rand.Reader, tmpl, tmpl, key.Public(), key)
	ca, _ := x509.ParseCertificate(der)
	l, err := tls.Listen("tcp", "127.0.0.1:0", &tls.Config{Certificates: []tls.Certificate{{Certificate: [][]byte{der}, PrivateKey: key}}, NextProtos: []string{"h2"}})
	if err != nil {
		t.Fatal(err)
	}
	go func() {
		c, err := l.Accept()
		if err != nil {
			return
		}
		io.ReadFull(c, make([]byte, len(connectionPreface)))
		c.Close()
	}()
	roots := x509.NewCertPool()
	roots.AddCert(ca)
	cfg := &Config{RootCAs: roots}
	_, port, _ := net.SplitHostPort(l.Addr().String())
	u, _ := url.Parse("https://localhost:" + port)
	proxySide, clientSide := net.Pipe()
	defer clientSide.Close()
	go clientSide.Write(connectionPreface)
	done := make(chan error, 1)
	go func() { done <- cfg.Proxy(make(chan bool), proxySide, u) }()
	select {
	case <-done:
	case <-time.After(3 * time.Second):
		t.Fatal("Proxy did not return after the server closed its connection (the client direction keeps waiting)")
	}
}

// F10 / C08.R6: HPACK encode order differs from wire order behind blocked DATA.
func TestTriageHPACKOrderBehindBlockedData(t *testing.T) {
	dbg := false
	var wire bytes.Buffer
	var in bytes.Buffer
	r := newRelay(ClientToServer, "c", "s", http2.NewFramer(io.Discard, &in), http2.NewFramer(&wire, &wire), &dbg)
	r.updateInitialWindowSize(0) // the receiver has granted no stream window yet
	r.data(1, []byte("body"), false)
	zero := http2.PriorityParam{}
	// trailers of stream 1: queued behind the blocked DATA, but encoded now (inserts x-new into the table)
	r.header(1, []hpack.HeaderField{{Name: "x-new", Value: "value"}}, true, zero)
	// headers of stream 3: encoded later (indexed reference to x-new), but written first
	r.header(3, []hpack.HeaderField{{Name: "x-new", Value: "value"}}, true, zero)
	drain := func() {
		for {
			select {
			case f := <-r.output:
				if err := f.send(r.dest); err != nil {
					t.Fatal(err)
				}
			default:
				return
			}
		}
	}
	drain()
	r.updateWindow(&http2.WindowUpdateFrame{FrameHeader: http2.FrameHeader{StreamID: 1}, Increment: 100})
	drain()
	// the receiver decodes the header blocks in wire order with one dynamic table
	rd := http2.NewFramer(io.Discard, &wire)
	dec := hpack.NewDecoder(4096, nil)
	for {
		f, err := rd.ReadFrame()
		if err != nil {
			break
		}
		if hf, ok := f.(*http2.HeadersFrame); ok {
			fields, err := dec.DecodeFull(hf.HeaderBlockFragment())
			if err != nil {
				t.Fatalf("receiver cannot decode the header block of stream %d: %v", hf.StreamID, err)
			}
			if len(fields) != 1 || fields[0].Name != "x-new" || fields[0].Value != "value" {
				t.Fatalf("stream %d decoded to %v", hf.StreamID, fields)
			}
		}
	}
}

// F15 / C10.R3: a direction has ended (its relayFrames returned, so its writer goroutine is
// gone); the peer's reader then applies a WINDOW_UPDATE that makes more than outputChannelSize
// queued frames eligible.
func TestTriageEmitBlocksUnderLockAfterWriterExit(t *testing.T) {
	dbg := false
	var wire bytes.Buffer
	r := newRelay(ServerToClient, "s", "c", http2.NewFramer(io.Discard, bytes.NewReader(nil)), http2.NewFramer(&wire, &wire), &dbg)
	if err := r.relayFrames(make(chan bool)); err != nil { // the source is at EOF: returns at once
		t.Fatal(err)
	}
	r.updateInitialWindowSize(0)
	for i := 0; i < outputChannelSize+5; i++ {
		r.data(1, []byte("x"), false) // queued behind the closed stream window
	}
	done := make(chan bool)
	go func() {
		r.updateWindow(&http2.WindowUpdateFrame{FrameHeader: http2.FrameHeader{StreamID: 1}, Increment: 1000})
		close(done)
	}()
	select {
	case <-done:
	case <-time.After(2 * time.Second):
		t.Fatal("updateWindow (called by the peer's reader goroutine) is blocked forever on the output channel while holding flowMu")
	}
}
