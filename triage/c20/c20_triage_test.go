package triage

import (
	"io/ioutil"
	"net/http"
	"net/url"
	"os"
	"path/filepath"
	"testing"

	"github.com/google/martian/v3/body"
	"github.com/google/martian/v3/proxyutil"
	"github.com/google/martian/v3/static"
)

func rangeRes(t *testing.T, rng, path string) *http.Response {
	req, _ := http.NewRequest("GET", "http://example.com/"+path, nil)
	if rng != "" {
		req.Header.Set("Range", rng)
	}
	return proxyutil.NewResponse(200, nil, req)
}

// F29 / C20.R1 (body): last position beyond the end is clamped; start beyond the end is 416; never a panic.
func TestTriageBodyRangeBeyondEnd(t *testing.T) {
	m := body.NewModifier([]byte("0123456789"), "text/plain")
	res := rangeRes(t, "bytes=5-100", "x")
	func() {
		defer func() {
			if r := recover(); r != nil {
				t.Fatalf("body modifier panicked on Range bytes=5-100: %v", r)
			}
		}()
		if err := m.ModifyResponse(res); err != nil {
			t.Fatal(err)
		}
	}()
	b, _ := ioutil.ReadAll(res.Body)
	if res.StatusCode != 206 || string(b) != "56789" || res.ContentLength != 5 || res.Header.Get("Content-Range") != "bytes 5-9/10" {
		t.Fatalf("got %d %q CL=%d CR=%q", res.StatusCode, b, res.ContentLength, res.Header.Get("Content-Range"))
	}
	res = rangeRes(t, "bytes=20-30", "x")
	func() {
		defer func() {
			if r := recover(); r != nil {
				t.Fatalf("body modifier panicked on Range bytes=20-30: %v", r)
			}
		}()
		m.ModifyResponse(res)
	}()
	if res.StatusCode != 416 {
		t.Fatalf("Range starting beyond the end: status %d, want 416", res.StatusCode)
	}
}

func staticSetup(t *testing.T) (root string, cleanup func()) {
	tmp, err := ioutil.TempDir("", "martian-triage")
	if err != nil {
		t.Fatal(err)
	}
	root = filepath.Join(tmp, "root")
	os.MkdirAll(root, 0o755)
	ioutil.WriteFile(filepath.Join(root, "f.txt"), []byte("0123456789"), 0o644)
	ioutil.WriteFile(filepath.Join(tmp, "secret.txt"), []byte("SECRET"), 0o644)
	return root, func() { os.RemoveAll(tmp) }
}

// F29+F30 / C20.R1, C20.R2 (static)
func TestTriageStaticRangeBeyondEnd(t *testing.T) {
	root, cleanup := staticSetup(t)
	defer cleanup()
	m := static.NewModifier(root)
	res := rangeRes(t, "bytes=5-100", "f.txt")
	res.Request.URL.Path = "/f.txt"
	if err := m.ModifyResponse(res); err != nil {
		t.Fatal(err)
	}
	b, _ := ioutil.ReadAll(res.Body)
	if res.StatusCode != 206 || string(b) != "56789" || res.ContentLength != 5 || res.Header.Get("Content-Range") != "bytes 5-9/10" {
		t.Fatalf("got %d body %q (len %d) CL=%d CR=%q: bytes outside the content / inconsistent length", res.StatusCode, b, len(b), res.ContentLength, res.Header.Get("Content-Range"))
	}
}

// F31 / C20.R3
func TestTriageStaticPathEscape(t *testing.T) {
	root, cleanup := staticSetup(t)
	defer cleanup()
	m := static.NewModifier(root)
	req, _ := http.NewRequest("GET", "http://example.com/", nil)
	req.URL = &url.URL{Scheme: "http", Host: "example.com", Path: "../secret.txt"}
	res := proxyutil.NewResponse(200, nil, req)
	m.ModifyResponse(res)
	b, _ := ioutil.ReadAll(res.Body)
	if res.StatusCode != 404 || string(b) == "SECRET" {
		t.Fatalf("request path ../secret.txt escaped the root: status %d body %q", res.StatusCode, b)
	}
}
