package header

import (
	"net/http"
	"strings"
	"testing"

	"github.com/google/martian/v3"
)

// F22 / C14.R4: several Via / X-Forwarded-For lines.
func TestTriageViaSeveralLines(t *testing.T) {
	m := NewViaModifier("martian")
	m.SetBoundary("boundary")
	req, _ := http.NewRequest("GET", "http://example.com", nil)
	req.Header.Add("Via", "1.1 alpha")
	req.Header.Add("Via", "1.1 beta")
	_, remove, _ := martian.TestContext(req, nil, nil)
	defer remove()
	if err := m.ModifyRequest(req); err != nil {
		t.Fatal(err)
	}
	got := strings.Join(req.Header["Via"], ", ")
	if !strings.Contains(got, "alpha") || !strings.Contains(got, "beta") || !strings.HasSuffix(got, "martian-boundary") {
		t.Fatalf("Via after the modifier: %q; want both existing entries kept and this proxy appended last", got)
	}
	// a loop named only on the second line
	req2, _ := http.NewRequest("GET", "http://example.com", nil)
	req2.Header.Add("Via", "1.1 alpha")
	req2.Header.Add("Via", "1.1 martian-boundary")
	_, remove2, _ := martian.TestContext(req2, nil, nil)
	defer remove2()
	if err := m.ModifyRequest(req2); err == nil {
		t.Fatal("a request whose Via (second line) already names this proxy was not detected as a loop")
	}
}

func TestTriageXFFSeveralLines(t *testing.T) {
	m := NewForwardedModifier()
	req, _ := http.NewRequest("GET", "http://example.com", nil)
	req.RemoteAddr = "10.0.0.1:1234"
	req.Header.Add("X-Forwarded-For", "1.1.1.1")
	req.Header.Add("X-Forwarded-For", "2.2.2.2")
	if err := m.ModifyRequest(req); err != nil {
		t.Fatal(err)
	}
	got := strings.Join(req.Header["X-Forwarded-For"], ", ")
	if got != "1.1.1.1, 2.2.2.2, 10.0.0.1" {
		t.Fatalf("X-Forwarded-For after the modifier: %q, want %q", got, "1.1.1.1, 2.2.2.2, 10.0.0.1")
	}
}
