package marbl

import (
	"bytes"
	"testing"
)

// F28 / C19.R3: hostile header-frame lengths whose uint32 sum wraps.
func TestTriageReaderLengthWrap(t *testing.T) {
	frame := []byte{byte(HeaderFrame), byte(Request), 'a', 'b', 'c', 'd', 'e', 'f', 'g', 'h',
		0xFF, 0xFF, 0xFF, 0xFF, 0, 0, 0, 2, 'x', 'y', 'z'}
	defer func() {
		if r := recover(); r != nil {
			t.Fatalf("ReadFrame panicked on a crafted frame: %v", r)
		}
	}()
	if _, err := NewReader(bytes.NewReader(frame)).ReadFrame(); err == nil {
		t.Fatal("expected an error for an oversized header frame")
	}
}
