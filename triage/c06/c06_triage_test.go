package mitm

import (
	"crypto/tls"
	"testing"
	"time"
)

// F7 / C06.R7: neither SNI nor a fallback host: the handshake must be refused.
func TestTriageNoHostRefused(t *testing.T) {
	ca, priv, err := NewAuthority("martian.proxy", "Martian Authority", time.Hour)
	if err != nil {
		t.Fatal(err)
	}
	c, err := NewConfig(ca, priv)
	if err != nil {
		t.Fatal(err)
	}
	cert, err := c.TLSForHost("").GetCertificate(&tls.ClientHelloInfo{})
	if err == nil {
		t.Fatalf("got a certificate (DNSNames %q) although neither SNI nor a fallback host is available", cert.Leaf.DNSNames)
	}
}
