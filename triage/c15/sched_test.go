package triage

import (
	"runtime"
	"time"
)

func runtimeGosched() { runtime.Gosched(); time.Sleep(5 * time.Millisecond) }
