package triage

import (
	"bufio"
	"bytes"
	"io/ioutil"
	"net/http"
	"strings"
	"testing"

	"github.com/google/martian/v3"
	"github.com/google/martian/v3/har"
	"github.com/google/martian/v3/marbl"
	"github.com/google/martian/v3/messageview"
)

// F23 / C15.R4: an exchange marked skip-logging must not reach the marbl stream.
func TestTriageMarblHonoursSkipLogging(t *testing.T) {
	var buf bytes.Buffer
	m := marbl.NewModifier(&buf)
	req, _ := http.NewRequest("GET", "http://example.com/secret", nil)
	ctx, remove, _ := martian.TestContext(req, nil, nil)
	defer remove()
	ctx.SkipLogging()
	if err := m.ModifyRequest(req); err != nil {
		t.Fatal(err)
	}
	// the stream writes asynchronously; LogRequest sends frames to a channel drained by a goroutine
	for i := 0; i < 50 && buf.Len() == 0; i++ {
		runtimeGosched()
	}
	if buf.Len() != 0 {
		t.Fatalf("marbl recorded %d bytes for an exchange marked skip-logging", buf.Len())
	}
}

// F25 / C16.R1: a chunked upload must be logged without its chunk framing.
func TestTriageHARPostDataDechunked(t *testing.T) {
	req, _ := http.NewRequest("POST", "http://example.com/", ioutil.NopCloser(strings.NewReader("hello world")))
	req.Header.Set("Content-Type", "text/plain")
	req.TransferEncoding = []string{"chunked"}
	req.ContentLength = -1
	hreq, err := har.NewRequest(req, true)
	if err != nil {
		t.Fatal(err)
	}
	if hreq.PostData == nil || hreq.PostData.Text != "hello world" {
		t.Fatalf("post data of a chunked upload: %q, want %q", hreq.PostData.Text, "hello world")
	}
	b, _ := ioutil.ReadAll(req.Body)
	if string(b) != "hello world" {
		t.Fatalf("forwarded body changed: %q", b)
	}
}

// F24 / C15.R5: a chunked snapshot with trailers must parse.
func TestTriageSnapshotWithTrailersParses(t *testing.T) {
	req, _ := http.NewRequest("POST", "http://example.com/", ioutil.NopCloser(strings.NewReader("hello")))
	req.TransferEncoding = []string{"chunked"}
	req.ContentLength = -1
	req.Trailer = http.Header{"X-Trailer": []string{"v"}}
	mv := messageview.New()
	if err := mv.SnapshotRequest(req); err != nil {
		t.Fatal(err)
	}
	r, _ := mv.Reader()
	raw, _ := ioutil.ReadAll(r)
	got, err := http.ReadRequest(bufio.NewReader(bytes.NewReader(raw)))
	if err != nil {
		t.Fatalf("snapshot does not parse: %v\n%q", err, raw)
	}
	if _, err := ioutil.ReadAll(got.Body); err != nil {
		t.Fatalf("body/trailers of the snapshot do not parse: %v\n%q", err, raw)
	}
	if got.Trailer.Get("X-Trailer") != "v" {
		t.Fatalf("trailer lost: %v", got.Trailer)
	}
}
