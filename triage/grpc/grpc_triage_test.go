package grpc

// Reproductions for C11 findings; copied into /repo/h2/grpc while triaging.

import (
	"bytes"
	"io/ioutil"
	"testing"

	"github.com/golang/snappy"
	"github.com/google/martian/v3/h2"
	"golang.org/x/net/http2"
	"golang.org/x/net/http2/hpack"
)

type recSink struct {
	data  [][]byte
	ended []bool
}

func (s *recSink) Data(d []byte, e bool) error {
	s.data = append(s.data, append([]byte(nil), d...))
	s.ended = append(s.ended, e)
	return nil
}
func (s *recSink) Header([]hpack.HeaderField, bool, http2.PriorityParam) error { return nil }
func (s *recSink) Priority(http2.PriorityParam) error                          { return nil }
func (s *recSink) RSTStream(http2.ErrCode) error                               { return nil }
func (s *recSink) PushPromise(uint32, []hpack.HeaderField) error               { return nil }

type recMsgs struct {
	msgs  [][]byte
	ended []bool
	to    Processor
}

func (m *recMsgs) Header(h []hpack.HeaderField, e bool, p http2.PriorityParam) error { return nil }
func (m *recMsgs) Message(d []byte, e bool) error {
	m.msgs = append(m.msgs, d)
	m.ended = append(m.ended, e)
	if m.to != nil {
		return m.to.Message(d, e)
	}
	return nil
}

func newPair(enc Encoding, compressed bool) (*adapter, *emitter, *recSink, *recMsgs) {
	enabled := int32(1)
	sink := &recSink{}
	em := &emitter{sink: sink}
	rec := &recMsgs{to: em}
	ad := &adapter{enabled: &enabled, dir: h2.ClientToServer, processor: rec, sink: sink, encoding: enc}
	em.adapter = ad
	_ = compressed
	return ad, em, sink, rec
}

// F16 / C11.R1: what the emitter writes for snappy must be readable by the adapter's decoder.
func TestTriageSnappyRoundTrip(t *testing.T) {
	ad, em, sink, _ := newPair(Snappy, true)
	ad.compressed = true
	if err := em.Message([]byte("hello hello hello"), false); err != nil {
		t.Fatal(err)
	}
	wire := sink.data[0]
	got, err := ioutil.ReadAll(snappy.NewReader(bytes.NewReader(wire[5:])))
	if err != nil || string(got) != "hello hello hello" {
		t.Fatalf("emitted snappy payload is not readable by the decoder the adapter uses: %q, %v", got, err)
	}
}

// F17 / C11.R4: an END_STREAM that carries no message must not put a message on the wire.
func TestTriageBareEndStreamAddsNoMessage(t *testing.T) {
	ad, _, sink, rec := newPair(Identity, false)
	if err := ad.Data(nil, true); err != nil {
		t.Fatal(err)
	}
	if len(rec.msgs) != 1 || rec.msgs[0] != nil || !rec.ended[0] {
		t.Fatalf("processor saw %v %v", rec.msgs, rec.ended)
	}
	if len(sink.data) != 1 || len(sink.data[0]) != 0 || !sink.ended[0] {
		t.Fatalf("a bare end-of-stream was forwarded as %d byte(s) %x (a length-prefixed empty message), want an empty DATA frame with END_STREAM", len(sink.data[0]), sink.data[0])
	}
}

// F33 / C11: a zero-length message that ends the DATA frame (and the stream).
func TestTriageEmptyMessageAtEndOfFrame(t *testing.T) {
	ad, _, sink, rec := newPair(Identity, false)
	if err := ad.Data([]byte{0, 0, 0, 0, 0}, true); err != nil {
		t.Fatal(err)
	}
	if len(rec.msgs) != 1 || rec.msgs[0] == nil || len(rec.msgs[0]) != 0 || !rec.ended[0] {
		t.Fatalf("processor saw messages %v ended %v, want one empty message with end-of-stream", rec.msgs, rec.ended)
	}
	if len(sink.data) != 1 || !bytes.Equal(sink.data[0], []byte{0, 0, 0, 0, 0}) || !sink.ended[0] {
		t.Fatalf("destination received %x ended %v", sink.data, sink.ended)
	}
}
