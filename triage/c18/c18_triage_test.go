package trafficshape

import (
	"net"
	"runtime"
	"testing"
	"time"
)

// slowAction lets the test place a writer between the two read-lock acquisitions.
type slowAction struct {
	CloseConnection
	hook func()
}

func (s *slowAction) getByte() int64 {
	if s.hook != nil {
		h := s.hook
		s.hook = nil
		h()
	}
	return s.Byte
}

// F26 / C18.R4: a reconfiguration arriving while GetNextActionFromByte runs.
func TestTriageRecursiveRLockDeadlocks(t *testing.T) {
	shapes := &urlShapes{M: map[string]*urlShape{}}
	sa := &slowAction{CloseConnection: CloseConnection{Byte: 10, Count: 1}}
	shapes.M["x"] = &urlShape{Shape: &Shape{URLRegex: "x", Actions: []Action{sa}}}
	c := &Conn{Shapes: shapes, Context: &Context{URLRegex: "x"}, Established: time.Now().Add(time.Hour)}
	sa.hook = func() {
		// the configuration handler asks for the write lock now
		go func() {
			shapes.Lock()
			shapes.Unlock()
		}()
		time.Sleep(200 * time.Millisecond) // let it queue behind our read lock
	}
	done := make(chan bool)
	go func() {
		c.GetNextActionFromByte(0)
		close(done)
	}()
	select {
	case <-done:
	case <-time.After(3 * time.Second):
		t.Fatal("GetNextActionFromByte deadlocked: it re-acquires the read lock it already holds while a writer (reconfiguration) is waiting")
	}
}

// F27 / C18.R7: closing shaped connections releases what was created for them.
func TestTriageShapedConnReleasesBuckets(t *testing.T) {
	inner, err := net.Listen("tcp", "127.0.0.1:0")
	if err != nil {
		t.Fatal(err)
	}
	l := NewListener(inner)
	defer l.Close()
	l.Shapes.M["x"] = &urlShape{Shape: &Shape{URLRegex: "x", MaxBandwidth: 1000, WriteBucket: NewBucket(1000, time.Second)}}
	time.Sleep(50 * time.Millisecond)
	before := runtime.NumGoroutine()
	for i := 0; i < 20; i++ {
		a, b := net.Pipe()
		sc := l.GetTrafficShapedConn(a)
		sc.Close()
		b.Close()
	}
	time.Sleep(200 * time.Millisecond)
	after := runtime.NumGoroutine()
	if after > before+5 {
		t.Fatalf("%d goroutines before, %d after opening and closing 20 shaped connections: the per-connection buckets are never closed", before, after)
	}
}

// F27b / C18.R7: buckets created while parsing a configuration are never closed,
// neither when the configuration is rejected nor when it is replaced.
func TestTriageShapeBucketsLeakOnReconfiguration(t *testing.T) {
	before := runtime.NumGoroutine()
	for i := 0; i < 20; i++ {
		ts := &Trafficshape{Shapes: []*Shape{
			{URLRegex: "a", Throttles: []*Throttle{{Bytes: "0-10", Bandwidth: 100}}},
			{URLRegex: "b", Throttles: []*Throttle{{Bytes: "5-1", Bandwidth: 100}}}, // rejected
		}}
		if err := parseShapes(ts); err == nil {
			t.Fatal("expected the configuration to be rejected")
		}
	}
	time.Sleep(200 * time.Millisecond)
	if after := runtime.NumGoroutine(); after > before+5 {
		t.Fatalf("%d goroutines before, %d after 20 rejected configurations: buckets created for shapes are never closed", before, after)
	}
}
