package martian

// Throw-away reproductions used while triaging checker reports (DESIGN.md
// section 5). Copied into /repo temporarily, never committed there. Each test
// fails on the pinned tree and passes with the corresponding "fix:" commit.

import (
	"bufio"
	"crypto/tls"
	"crypto/x509"
	"io"
	"net"
	"net/http"
	"sync"
	"testing"
	"time"

	"github.com/google/martian/v3/martiantest"
	"github.com/google/martian/v3/mitm"
	"github.com/google/martian/v3/proxyutil"
)

// F1 / C02.R6
func TestTriageHijackCloses(t *testing.T) {
	l, _ := net.Listen("tcp", "127.0.0.1:0")
	p := NewProxy()
	p.SetRequestModifier(RequestModifierFunc(func(req *http.Request) error {
		_, brw, err := NewContext(req).Session().Hijack()
		if err != nil {
			t.Error(err)
		}
		brw.WriteString("HTTP/1.1 200 OK\r\nContent-Length: 2\r\n\r\nhi")
		brw.Flush()
		return nil
	}))
	go p.Serve(l)
	c, _ := net.Dial("tcp", l.Addr().String())
	defer c.Close()
	c.Write([]byte("GET http://example.com/ HTTP/1.1\r\nHost: example.com\r\n\r\n"))
	br := bufio.NewReader(c)
	res, err := http.ReadResponse(br, nil)
	if err != nil {
		t.Fatal(err)
	}
	res.Body.Close()
	c.SetReadDeadline(time.Now().Add(2 * time.Second))
	_, err = br.ReadByte()
	if ne, ok := err.(net.Error); ok && ne.Timeout() {
		t.Fatalf("connection not closed after hijack: %v", err)
	}
}

// F2 / C03.R2: origin promises 10 bytes, sends 3 and closes.
func TestTriageTruncatedResponseCloses(t *testing.T) {
	ol, _ := net.Listen("tcp", "127.0.0.1:0")
	go func() {
		n := 0
		for {
			c, err := ol.Accept()
			if err != nil {
				return
			}
			n++
			go func(c net.Conn, n int) {
				br := bufio.NewReader(c)
				if _, err := http.ReadRequest(br); err != nil {
					return
				}
				if n == 1 {
					c.Write([]byte("HTTP/1.1 200 OK\r\nContent-Length: 10\r\n\r\nabc"))
					c.Close()
					return
				}
				c.Write([]byte("HTTP/1.1 200 OK\r\nContent-Length: 2\r\n\r\nok"))
				c.Close()
			}(c, n)
		}
	}()
	l, _ := net.Listen("tcp", "127.0.0.1:0")
	p := NewProxy()
	go p.Serve(l)
	c, _ := net.Dial("tcp", l.Addr().String())
	defer c.Close()
	u := "http://" + ol.Addr().String() + "/"
	c.Write([]byte("GET " + u + " HTTP/1.1\r\nHost: x\r\n\r\n"))
	time.Sleep(300 * time.Millisecond)
	c.Write([]byte("GET " + u + " HTTP/1.1\r\nHost: x\r\n\r\n"))
	c.SetReadDeadline(time.Now().Add(2 * time.Second))
	b, _ := io.ReadAll(c)
	// After the truncated body ("abc") the connection must close: no second
	// status line may follow on the same connection.
	s := string(b)
	first := len("HTTP/1.1 200 OK")
	if idx := indexFrom(s, "HTTP/1.1", first); idx >= 0 {
		t.Fatalf("second response delivered after a truncated one on the same connection:\n%q", s)
	}
}

func indexFrom(s, sub string, from int) int {
	if from > len(s) {
		return -1
	}
	for i := from; i+len(sub) <= len(s); i++ {
		if s[i:i+len(sub)] == sub {
			return i
		}
	}
	return -1
}

// F5+F6 / C05.R2, C05.R3
func TestTriageMITMLaterRequestsHaveTLS(t *testing.T) {
	l, _ := net.Listen("tcp", "127.0.0.1:0")
	p := NewProxy()
	tr := martiantest.NewTransport()
	tr.Func(func(req *http.Request) (*http.Response, error) {
		return proxyutil.NewResponse(200, nil, req), nil
	})
	p.SetRoundTripper(tr)
	ca, priv, _ := mitm.NewAuthority("martian.proxy", "Martian Authority", 2*time.Hour)
	mc, _ := mitm.NewConfig(ca, priv)
	p.SetMITM(mc)
	var mu sync.Mutex
	var seen []bool
	var hj []net.Conn
	p.SetRequestModifier(RequestModifierFunc(func(req *http.Request) error {
		if req.Method == "CONNECT" {
			return nil
		}
		mu.Lock()
		defer mu.Unlock()
		seen = append(seen, req.TLS != nil)
		if len(seen) == 3 {
			c, _, _ := NewContext(req).Session().Hijack()
			hj = append(hj, c)
		}
		return nil
	}))
	go p.Serve(l)
	conn, _ := net.Dial("tcp", l.Addr().String())
	defer conn.Close()
	req, _ := http.NewRequest("CONNECT", "//example.com:443", nil)
	req.Write(conn)
	if _, err := http.ReadResponse(bufio.NewReader(conn), req); err != nil {
		t.Fatal(err)
	}
	roots := x509.NewCertPool()
	roots.AddCert(ca)
	tc := tls.Client(conn, &tls.Config{ServerName: "example.com", RootCAs: roots})
	br := bufio.NewReader(tc)
	for i := 0; i < 3; i++ {
		r, _ := http.NewRequest("GET", "https://example.com/", nil)
		if err := r.Write(tc); err != nil {
			t.Fatal(err)
		}
		if i == 2 {
			break
		}
		res, err := http.ReadResponse(br, r)
		if err != nil {
			t.Fatal(err)
		}
		io.Copy(io.Discard, res.Body)
		res.Body.Close()
	}
	time.Sleep(300 * time.Millisecond)
	mu.Lock()
	defer mu.Unlock()
	for i, ok := range seen {
		if !ok {
			t.Errorf("request %d inside the MITM tunnel reached the modifier with req.TLS == nil", i+1)
		}
	}
	if len(hj) != 1 {
		t.Fatalf("hijack did not happen (%d requests seen)", len(seen))
	}
	if _, ok := hj[0].(*tls.Conn); !ok {
		t.Errorf("hijacker of a MITM'd session received %T, want the decrypted *tls.Conn", hj[0])
	}
}

// F32 / C04.R6: payload in the same segment as the CONNECT head.
func TestTriageConnectEarlyData(t *testing.T) {
	tl, _ := net.Listen("tcp", "127.0.0.1:0")
	got := make(chan string, 1)
	go func() {
		c, err := tl.Accept()
		if err != nil {
			return
		}
		c.SetReadDeadline(time.Now().Add(2 * time.Second))
		b := make([]byte, 5)
		n, _ := io.ReadFull(c, b)
		got <- string(b[:n])
	}()
	l, _ := net.Listen("tcp", "127.0.0.1:0")
	p := NewProxy()
	go p.Serve(l)
	c, _ := net.Dial("tcp", l.Addr().String())
	defer c.Close()
	c.Write([]byte("CONNECT " + tl.Addr().String() + " HTTP/1.1\r\nHost: x\r\n\r\nhello"))
	if s := <-got; s != "hello" {
		t.Fatalf("target received %q, want %q (early data parked in an unflushed buffer)", s, "hello")
	}
}

// F8 / C07.R2: Close must not return before an accepted connection is closed.
// The wrapper's RemoteAddr (called by Serve between Accept and the start of
// the handler) is used as the schedule point at which shutdown is requested.
type triageListener struct {
	net.Listener
	accepted chan *triageConn
}
type triageConn struct {
	net.Conn
	mu     sync.Mutex
	closed bool
	once   sync.Once
	inAddr chan bool
}

func (c *triageConn) Close() error {
	c.mu.Lock()
	c.closed = true
	c.mu.Unlock()
	return c.Conn.Close()
}
func (c *triageConn) RemoteAddr() net.Addr {
	c.once.Do(func() {
		close(c.inAddr)
		time.Sleep(200 * time.Millisecond)
	})
	return c.Conn.RemoteAddr()
}
func (l *triageListener) Accept() (net.Conn, error) {
	c, err := l.Listener.Accept()
	if err != nil {
		return nil, err
	}
	tc := &triageConn{Conn: c, inAddr: make(chan bool)}
	l.accepted <- tc
	return tc, nil
}

func TestTriageCloseWaitsForAcceptedConn(t *testing.T) {
	inner, _ := net.Listen("tcp", "127.0.0.1:0")
	l := &triageListener{Listener: inner, accepted: make(chan *triageConn, 1)}
	p := NewProxy()
	go p.Serve(l)
	c, err := net.Dial("tcp", inner.Addr().String())
	if err != nil {
		t.Fatal(err)
	}
	defer c.Close()
	tc := <-l.accepted
	<-tc.inAddr // Serve is between Accept and `go handleLoop`
	p.Close()
	tc.mu.Lock()
	closed := tc.closed
	tc.mu.Unlock()
	if !closed {
		t.Fatalf("Close returned while an accepted connection was still open (its handler had not registered with the wait group yet)")
	}
}

// F3 / C04.R3: a downstream proxy that answers CONNECT with garbage.
func TestTriageConnectDownstreamGarbageClosesConn(t *testing.T) {
	dl, _ := net.Listen("tcp", "127.0.0.1:0")
	closed := make(chan error, 1)
	go func() {
		c, err := dl.Accept()
		if err != nil {
			return
		}
		br := bufio.NewReader(c)
		http.ReadRequest(br)
		c.Write([]byte("this is not http\r\n\r\n"))
		c.SetReadDeadline(time.Now().Add(2 * time.Second))
		_, err = br.ReadByte()
		closed <- err
	}()
	l, _ := net.Listen("tcp", "127.0.0.1:0")
	p := NewProxy()
	u, _ := http.NewRequest("GET", "http://"+dl.Addr().String(), nil)
	p.SetDownstreamProxy(u.URL)
	go p.Serve(l)
	c, _ := net.Dial("tcp", l.Addr().String())
	defer c.Close()
	c.Write([]byte("CONNECT example.com:443 HTTP/1.1\r\nHost: example.com:443\r\n\r\n"))
	res, err := http.ReadResponse(bufio.NewReader(c), nil)
	if err != nil {
		t.Fatal(err)
	}
	if res.StatusCode != 502 {
		t.Fatalf("status %d, want 502", res.StatusCode)
	}
	err = <-closed
	if ne, ok := err.(net.Error); ok && ne.Timeout() {
		t.Fatalf("connection to the downstream proxy was not closed after the failed CONNECT: %v", err)
	}
}

// F4 / C04.R5: the target finishes and closes; the client must see EOF promptly.
func TestTriageConnectHalfClose(t *testing.T) {
	tl, _ := net.Listen("tcp", "127.0.0.1:0")
	go func() {
		c, err := tl.Accept()
		if err != nil {
			return
		}
		c.Write([]byte("bye"))
		c.Close()
	}()
	l, _ := net.Listen("tcp", "127.0.0.1:0")
	p := NewProxy()
	go p.Serve(l)
	c, _ := net.Dial("tcp", l.Addr().String())
	defer c.Close()
	c.Write([]byte("CONNECT " + tl.Addr().String() + " HTTP/1.1\r\nHost: x\r\n\r\n"))
	br := bufio.NewReader(c)
	res, err := http.ReadResponse(br, nil)
	if err != nil || res.StatusCode != 200 {
		t.Fatal(err, res)
	}
	c.SetReadDeadline(time.Now().Add(2 * time.Second))
	b, err := io.ReadAll(br)
	if string(b) != "bye" {
		t.Errorf("got %q, want %q", b, "bye")
	}
	if err != nil {
		t.Fatalf("client did not observe end-of-stream after the target closed: %v", err)
	}
}
